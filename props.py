"""Property table: which machinery decides which property (DESIGN.md section 4)."""

# verus unit -> spec file (under /verif/spec)
# For a property, `verus` lists (unit, [obligation prefixes that belong to the property]).
# A semantic failure in a function that carries one of these obligation ids is a violation of the property;
# failures in other functions of the unit belong to other properties and are only noted.

PROPS = {
    "C09": {
        "title": "The receiver's account of which bytes it holds is exact",
        "verus": [("segments", ["O-C09-"])],
        "search": ["segments"],
        "level": "proof",
        "technique": "deductive verification (Verus/Z3) of contracts injected into the extracted real functions",
        "design_ref": "DESIGN.md 4/C09",
        "level_text": "Unbounded proof: every function of cfdp-daemon/src/segments.rs (extracted from the working tree on each run) "
                      "is verified against a set-of-bytes specification for all list lengths and all u64 offsets: merge adds exactly the "
                      "segment's bytes and returns the growth of the byte count (= cardinality, lemma_total_is_cardinality), is_complete(n) "
                      "<=> every byte of [0,n) held, gaps(start,end) = exactly the maximal uncovered sub-ranges of the window.",
        "level_note": "Trusted: Verus 0.2026.09.13 + Z3; assumed std contracts <[T]>::binary_search_by (on a slice sorted w.r.t. the comparator), "
                      "std::cmp::max, and vstd's Vec/slice/Option/iterator specifications; extraction rules R1 (assert! -> obligation), R5, R8; "
                      "closure contracts injected on the two comparators. Usize/u64 arithmetic is machine arithmetic (overflow checked).",
    },
}

NOT_APPLICABLE = {
    "C01": "end-to-end equality of delivered and source file composes two entities, the link and two filesystems over a whole history; per-function contracts give only its lemmas (proved under C09, C14, C07); no contract within reach of Verus/Kani expresses the composition",
    "C02": "liveness of a two-party protocol under fault schedules; Verus and Kani prove safety of one call, not eventual completion",
    "C03": "bounded-time termination for every peer/link behaviour is liveness plus real time; only the timer loop's own termination is a contract (proved under C17)",
    "C10": "cancel handshakes at both entities under every interleaving and loss pattern: schedules and a peer; the single-entity fragments live in process_pdu (async/iterator-heavy, outside the verifiers' subset)",
    "C11": "isolation of concurrent tokio tasks and routing inside async fn forward_pdu: Kani has no async/thread support, Verus has no model of tokio channels; nothing here is a function contract",
    "C12": "path confinement is a theorem about path strings ('..', separators, prefixes): Verus has no string theory and camino/std path parsing under Kani needs symbolic-length buffers (spurious mode); assumed components()/join() contracts would only restate the assumption",
    "C13": "each request's outcome is a function of live filesystem state (exists, is_file, syscalls) which no verifier here executes or models",
    "C16": "the obligation (decode only the n bytes received) is one argument expression inside an async trait method awaiting a UDP socket; neither tool verifies async bodies or socket history",
    "C18": "one-way/closure behaviour is the interplay of both state machines' process_pdu/send_pdu reactions; not expressible as contracts on the functions within reach",
}
