"""Property table: which machinery decides which property (DESIGN.md section 4)."""

# verus unit -> spec file (under /verif/spec)
# For a property, `verus` lists (unit, [obligation prefixes that belong to the property]).
# A semantic failure in a function that carries one of these obligation ids is a violation of the property;
# failures in other functions of the unit belong to other properties and are only noted.

import json as _json
import os as _os
_QS = _json.load(open(_os.path.join(_os.path.dirname(_os.path.abspath(__file__)), "kani", "quick_sets.json")))

PROPS = {
    "C09": {
        "title": "The receiver's account of which bytes it holds is exact",
        "verus": [("segments", ["O-C09-"])],
        "search": ["segments"],
        "level": "proof",
        "technique": "deductive verification (Verus/Z3) of contracts injected into the extracted real functions",
        "design_ref": "DESIGN.md 4/C09",
        "level_text": "Unbounded proof: every function of cfdp-daemon/src/segments.rs (extracted from the working tree on each run) "
                      "is verified against a set-of-bytes specification for all list lengths and all u64 offsets: merge adds exactly the "
                      "segment's bytes and returns the growth of the byte count (= cardinality, lemma_total_is_cardinality), is_complete(n) "
                      "<=> every byte of [0,n) held, gaps(start,end) = exactly the maximal uncovered sub-ranges of the window.",
        "level_note": "Trusted: Verus 0.2026.09.13 + Z3; assumed std contracts <[T]>::binary_search_by (on a slice sorted w.r.t. the comparator), "
                      "std::cmp::max, and vstd's Vec/slice/Option/iterator specifications; extraction rules R1 (assert! -> obligation), R5, R8; "
                      "closure contracts injected on the two comparators. Usize/u64 arithmetic is machine arithmetic (overflow checked).",
    },
}

VERUS_NOTE = ("Trusted: Verus 0.2026.09.13 + Z3; vstd's specifications of Vec/VecDeque/Option/HashMap/iterators; the assumed std contracts and "
              "external_body stubs listed under trusted_base in the evidence (their `requires` are obligations on verified callers, their `ensures` "
              "are assumptions about unverified code); extraction rules R1-R9 of DESIGN.md 3.2 as counted under rewrites_applied. ")

PROPS.update({
    "C03": {
        "title": "Every transaction ends in bounded time, whatever the peer and the link do",
        "verus": [("send", ["O-C03-"]), ("recv", ["O-C03-"])],
        "level": "proof",
        "technique": "deductive verification (Verus/Z3) of 'always armed' invariants over the step functions of sender and receiver",
        "design_ref": "DESIGN.md 4/C03",
        "level_text": "Partial, proof of a NECESSARY condition on the SENDER: alive_inv = an active transaction always has a PDU to offer to the transport (has_pdu_to_send, whose "
                      "exact meaning is proved) or, in the two waiting sub-states, a running positive-acknowledgement or inactivity timer - the only things besides a PDU from the peer "
                      "that wake the transaction loop; and the Finished sub-state exists only with the ACK(Finished) pending. The invariant is preserved by send_pdu, process_pdu, "
                      "handle_timeout, cancel, handle_fault (on a non-terminated transaction) and re-established by resume. Together with C17 (a running timer reaches its limit "
                      "after exactly limit x timeout and then the configured handler runs) this excludes a sender that waits forever for a silent peer. RECEIVER: inact_live = the "
                      "inactivity timer of an active receiver is running; established by process_pdu and resume, preserved by send_pdu, handle_timeout, cancel, handle_fault and "
                      "every function they call (new() starts it: by inspection); it implies the receiver's alive_inv (a PDU to offer, a running timer or a delayed NAK check). "
                      "NOT decided: the bound itself as a number, the daemon loop and the claim as a whole (liveness over schedules).",
        "level_note": VERUS_NOTE,
    },
    "C04": {
        "title": "A completed delivery is final",
        "verus": [("recv", ["O-C04-"]), ("send", ["O-C04-"])],
        "level": "proof",
        "technique": "deductive verification (Verus/Z3) of contracts on the extracted receiver functions (finalize_receive verified in place, reachable only through its precondition) and of the sender's delivery-code frame",
        "design_ref": "DESIGN.md 4/C04",
        "level_text": "Partial, proof of function contracts: finalisation (checksum, copy to the destination name, filestore requests: finalize_receive, a verified body) has the "
                      "precondition 'data-reception sub-state' and, in acknowledged mode, 'metadata and EOF in hand and every byte of [0,size) held'; the completion check "
                      "(called on every file-data, EOF and metadata PDU) and both EOF branches of process_pdu discharge it, leave that sub-state when they finalise, and are "
                      "no-ops in every later state; every function of the receiver unit proves that the data-reception sub-state is never re-entered: late or duplicate file "
                      "data, EOF, metadata or prompts cannot re-run the checksum, the copy or the filestore requests. SENDER: its delivery code - what its Finished indication "
                      "reports (O-C18-outcome) - changes only by taking over the delivery code of a Finished PDU from the receiver; every other function leaves it alone, so a "
                      "sender reports a complete delivery only if a receiver's Finished PDU said so. NOT decided: the daemon's re-spawn of an ended transaction (a PDU for a "
                      "finished-and-removed transaction starts a new receive transaction: history outside the unit), and the two-party composition.",
        "level_note": VERUS_NOTE + "verify_checksum, finalize_file, is_file_transfer, send_indication are stubs (bodies not verified).",
    },
    "C05": {
        "title": "Every well-formed PDU survives encode then decode unchanged",
        "kani": ["c05_fixed", "c05_header", "c05_var", "c05_userops", "c05_report", "c05_wrap"],
        "kani_quick": _QS["C05"],      # harnesses measured reliable and fast (kani/quick_sets.json); thorough = all families
        "native": [{"prog": "roundtrip_bounded", "quick": ["search", "quick"], "thorough": ["search", "thorough"], "obligation": "O-C05-roundtrip-N",
                    "fn": "PDU::encode / PDU::decode and the per-type codecs", "file": "cfdp-core/src/pdu.rs",
                    "bound": "deterministic enumeration of well-formed values of 39 types (every PDU kind, all 16 id-width pairs incl. mixed, every enumerated field value, boundary numbers, "
                             "names of length 0/1/255): ~1.1 M values quick, ~8.9 M thorough"}],
        "level": "other",
        "technique": "Kani/CBMC proof harnesses over the real codec, one per concrete shape, value fields fully symbolic; + BOUNDED native enumeration of the shapes the quick tier leaves to the thorough tier",
        "design_ref": "DESIGN.md 4/C05, kani/README.md",
        "level_text": "Per concrete shape (every length-determining discrete choice enumerated: identifier widths 1/2/4/8, file-size flag, CRC flag, "
                      "directive / TLV / message-type code, string and list lengths) a Kani harness proves for ALL values of the remaining fields (full-width "
                      "symbolic) that encode(x).len() == encoded_len(x) == the wire-format length, every type/length octet has its wire-format value, and "
                      "decode(encode(x)) == Ok(x). Families c05_fixed, c05_header, c05_report are COMPLETE (no bound); c05_var, c05_userops, c05_wrap are "
                      "BOUNDED in string/list length (quick: lengths 0..2; thorough: 3, 255-octet bodies, 63-octet segment metadata). Types with private "
                      "fields (SFORequest, SFOReport, ProxySegmentationControl) are proved from the decoder side. The quick tier runs the subset of harnesses in "
                      "kani/quick_sets.json (corner width shapes); the shapes left to the thorough tier are covered on every change by the BOUNDED native enumeration "
                      "roundtrip_bounded (concrete values only: all width pairs, every enumerated field value, boundary numbers), which is not counted as proof.",
        "level_note": "Trusted: Kani 0.68 + CBMC 6.11; the UTF-8 validator stub (cross-checked natively); file names ASCII in the constructive harnesses; "
                      "string equality of file names; the generator's model of the wire format (gen.py), itself checked by the decode-side harnesses. "
                      "Bounded families are labelled bounded in the evidence and are not counted as proofs for all lengths.",
    },
    "C06": {
        "title": "Decoding arbitrary bytes never panics and what it accepts is canonical",
        "kani_quick": _QS["C06"],
        "native": [{"prog": "decode_bounded", "quick": ["search", "quick"], "thorough": ["search", "thorough"], "obligation": "O-C06-decode-bounded",
                    "fn": "PDU::decode", "file": "cfdp-core/src/pdu.rs",
                    "bound": "all 2^16 header length fields x first octets x fourth-octet grid; 256 id length octets; 176-PDU corpus x truncations x single-octet mutations; 200k per-type decoder inputs"}],
        "kani_timeout": 600,
        "kani": ["c06_arith", "c06_types", "c06_canon_eof", "c06_bytes_eof", "c06_canon_nak", "c06_bytes_nak", "c06_canon_filedata", "c06_bytes_filedata",
                 "c06_canon_small", "c06_dispatch", "c06_canon_finished", "c06_bytes_finished", "c06_canon_metadata", "c06_bytes_metadata"],
        "level": "other",
        "technique": "Kani/CBMC proof harnesses: all-free inputs on every arithmetic site (complete), per-class templates for no-panic and canonicity (bounded)",
        "design_ref": "DESIGN.md 4/C06, kani/README.md",
        "level_text": "COMPLETE: c06_arith - PDUHeader::decode over all 2^16 length fields x CRC flag x all first/fourth octets, VariableID::decode and "
                      "read_length_value_pair over all 256 length octets, and every fixed-layout leaf decoder on completely free octets and every truncation: "
                      "returns Ok or Err, no failed arithmetic / bounds / unwrap check, unwinding assertions on (termination of the loops for these sizes). "
                      "BOUNDED: per PDU class (type/length octets concrete, values free; lengths 0..2) decode never panics on well-formed, truncated and "
                      "malformed layouts, and whatever it accepts re-encodes (length field recomputed) to a PDU that decodes to the same value. "
                      "The allocation bound is structural: every allocation is sized by a u8 or u16 length field.",
        "level_note": "Trusted: Kani 0.68 + CBMC 6.11; UTF-8 validator stub; compositional reading of PDU::decode (header ++ slice ++ dispatch ++ leaf decoder) - "
                      "whole-datagram harnesses with free type octets are beyond CBMC here (kani/README.md). Finished / Metadata classes run in the thorough tier only.",
    },
    "C07": {
        "title": "Sender transmits exactly the source file: right bytes, offsets, sizes, checksum",
        "verus": [("send", ["O-C07-"])],
        "native": [{"prog": "naksplit_bounded", "quick": ["search", "2", "10"], "thorough": ["search", "2", "14"], "obligation": "O-C07-naksplit-N",
                    "fn": "SendTransaction::process_pdu", "file": "cfdp-daemon/src/transaction/send.rs",
                    "bound": "segment size 4; every NAK list of <= 2 requests over offsets 0..=10 (14 thorough); pairs of successive NAKs"}],
        "level": "other",
        "technique": "deductive verification (Verus/Z3) of the sender's PDU assembly functions (file access under assumed POSIX contracts) + bounded native check of the NAK splitter via a cfg-guarded hook",
        "design_ref": "DESIGN.md 4/C07",
        "level_text": "Partial, proof of function contracts: every PDU built by send_file_segment / send_eof / send_prompt / send_ack is handed to the "
                      "transport with the configured destination, a header whose identifiers, mode, direction, CRC and file-size flags come from the "
                      "configuration and whose length field equals the payload's encoded length; a file-data PDU carries the offset it was read at and "
                      "exactly the source file's bytes at that offset (file_slice of the abstract file content), never more than the requested length / "
                      "configured segment size and nothing beyond the end of the file. FIRST PASS: first_pass_inv (read position == progress figure "
                      "while in SendMetadata/SendData) is preserved by send_pdu and by every control function (process_pdu, handle_timeout, suspend, "
                      "resume, cancel, abandon, shutdown, handle_fault); a first-pass emission starts at the progress figure and moves it to the end of "
                      "the bytes emitted (in order, no gap, no overlap); a retransmission (send_missing_data) consumes exactly the first queued request, "
                      "leaves the read position and the progress where they were; the EOF is prepared only when the figure equals the file length. "
                      "send_eof sends the stored EOF once per arming; send_pdu's dispatch reaches the emitters only as its guard allows. "
                      "UNDER ASSUMED file contracts (seek/position/read/len of std::fs::File as stubs over an abstract (bytes, cursor) file; get_handle "
                      "hands out the transaction's one handle, opened at position 0). BOUNDED: the NAK splitter and de-duplication of "
                      "process_pdu (iterator chain + HashSet, a stub in the Verus unit) is checked on the real code through the hook "
                      "verif_pending_requests: for every NAK list of <= 2 requests over a small offset range the queue holds exactly the requested bytes, "
                      "split to the segment size, markers kept, no duplicates. send_metadata (verified in place; only the construction of the TLV option list is a "
                      "stub) hands the transport a Metadata PDU with the names, file size, checksum type and closure flag of the transaction's metadata record. "
                      "The EOF (prepare_eof and get_checksum verified in place) states the file size of the metadata record and - as long as the checksum cache, written only "
                      "by get_checksum, is right, an invariant preserved by every function of the unit - the checksum of the source file's bytes under the metadata's "
                      "checksum type, where `handle.checksum(type)` is a stub ASSUMED to return that value (the routine itself is property C14). "
                      "NOT decided: the content of the option list (iterator chain), that the metadata record built by the daemon states the true file size, "
                      "that the initial state built by new() satisfies first_pass_inv and cache_ok (0 == 0 / empty cache by inspection; new() is outside the unit).",
        "level_note": VERUS_NOTE + "File I/O stubs vx_stream_position/vx_seek_start/vx_read_up_to/vx_file_len replace `<io call>.map_err(..)?` by declared rewrites; "
                      "PDUPayload::encoded_len is uninterpreted here (its agreement with the encoder is property C05).",
    },
    "C08": {
        "title": "Receiver NAKs are well-formed and ask for exactly what is missing",
        "verus": [("segments", ["O-C08-"]), ("recv", ["O-C08-"])],
        "search": ["segments"],
        "level": "proof",
        "technique": "deductive verification (Verus/Z3) of contracts on Segments::gaps/is_complete and the receiver's has_naks/get_all_naks",
        "design_ref": "DESIGN.md 4/C08",
        "level_text": "Partial, proof of the NAK *content*: has_naks() <=> metadata missing or some byte of [0,EOF size) not held (a missing first segment "
                      "included) or, before EOF, a hole between runs; get_all_naks() = the (0,0) marker exactly when metadata is missing followed by exactly "
                      "the maximal uncovered sub-ranges of [0,n): every request non-empty, inside the file, sorted, disjoint, their union = the missing bytes. "
                      "send_naks builds a NAK PDU with at most max_nak_num requests (so that it fits the configured segment size: proved from the real "
                      "max_nak_num), scope = first request's start .. last request's end, and is never entered while suspended; process_pdu: after an "
                      "EOF (no error) with something missing, the queue holds exactly the missing ranges, or - with a delay - a whole-file check is armed. "
                      "NOT decided: the delayed-NAK prologue of handle_timeout (stub), 'no unsolicited NAK before EOF under the deferred procedure' "
                      "(would need a history invariant over process_pdu calls), configuration assumption segment size >= 2 x FSS.",
        "level_note": VERUS_NOTE,
    },
    "C10": {
        "title": "Cancel ends both sides and never leaves a partial file",
        "verus": [("send", ["O-C10-"]), ("recv", ["O-C10-"])],
        "level": "proof",
        "technique": "deductive verification (Verus/Z3) of contracts on cancel, the peer-cancel reactions of process_pdu, and a monotone sub-state frame on every receiver function",
        "design_ref": "DESIGN.md 4/C10",
        "level_text": "Partial, proof of the single-entity halves. SENDER: cancel() leaves the Cancelled sub-state with condition CancelReceived and an armed EOF carrying that condition and "
                      "this entity as fault location; a Finished PDU (acknowledged mode), e.g. the receiver's cancel, is taken over - condition, delivery code, file status - and the "
                      "ACK(Finished) armed; in the Cancelled sub-state a state change by handle_timeout can only be termination (abandon at the limits). RECEIVER: cancel() leaves the "
                      "Cancelled sub-state with condition CancelReceived, in acknowledged mode with a Finished PDU armed carrying it, in unacknowledged mode terminated; an EOF with "
                      "a condition other than NoError (the sender's cancel) makes the receiver take that condition and leave the data-reception sub-state. NO PARTIAL FILE: the "
                      "destination name is written by finalize_file only, whose precondition (checked at its only call site, in the verified finalize_receive) is the "
                      "data-reception sub-state, and every function of the receiver unit proves `recv_state != ReceiveData ==> stays != ReceiveData`: after a cancel the destination "
                      "is never written; it exists only if finalisation had already run (C04: with everything in hand in acknowledged mode). NOT decided: the handshake across the "
                      "two entities and the link (schedules, losses), 'within the configured limits' as a bound (C17/C03 give the per-entity parts), the staging file being a "
                      "system temporary file (by inspection of open_tempfile).",
        "level_note": VERUS_NOTE,
    },
    "C12": {
        "title": "Filestore operations cannot reach outside the filestore root",
        "verus": [],
        "native": [{"prog": "paths_bounded", "quick": ["search", "@SANDBOX@", "quick"], "thorough": ["search", "@SANDBOX@", "thorough"], "obligation": "O-C12-confined-N",
                    "fn": "NativeFileStore::get_native_path", "file": "cfdp-core/src/filestore.rs",
                    "bound": "names of <= 3 (4 thorough) components from {.., ., a, d, in.txt, outside.txt, outdir, rootx} x 8 prefixes (none, /, //, <root>/, <root>, <root>x/, "
                             "<root>/../, <root>/./) x trailing slash; every FileStore operation and every process_request action executed in a sandbox"}],
        "level": "other",
        "technique": "BOUNDED native check of the real NativeFileStore (exhaustive over a small name grammar, operations executed in a sandbox with sentinels); no contract-based proof: "
                     "path parsing (camino/std::path components, Peekable) is outside Verus' subset and symbolic-length strings are outside Kani's reliable range",
        "design_ref": "DESIGN.md 4/C12",
        "level_text": "BOUNDED, not proved: for every name of the enumeration (a) the lexical resolution of get_native_path(name) stays under the root component-wise, and (b) "
                      "create_file, delete_file, create_directory, remove_directory, get_size, list_directory, open (read / create+write), rename_file, append_file, "
                      "replace_file (each argument position) and process_request for every action, executed on the real file system in a sandbox, leave the sentinels outside the "
                      "root untouched, create nothing next to the root and return no sentinel data. Names outside the grammar, symbolic links inside the root, other FileStore "
                      "implementations and Windows prefixes are not covered.",
        "level_note": "Native program replay/core_native/src/bin/paths_bounded.rs compiled against /repo's cfdp-core (path dependency, overflow checks on). Bounded stand-in only: "
                      "nothing here is counted as proved. ",
    },
    "C13": {
        "title": "Filestore requests act as CFDP defines, once, in order, reported truthfully",
        "verus": [("recv", ["O-C13-"])],
        "native": [{"prog": "fsreq_bounded", "quick": ["search", "@SANDBOX@", "quick"], "thorough": ["search", "@SANDBOX@", "thorough"], "obligation": "O-C13-effect-N",
                    "fn": "FileStore::process_request (NativeFileStore)", "file": "cfdp-core/src/filestore.rs",
                    "bound": "9 actions x 8 names (two files, a directory, a file in it, a missing name, three aliases of the first file) x 8 second names for the two-name actions, "
                             "each on a fixed small tree and after one preceding request (a sample of them quick, all 240 thorough)"},
                   {"prog": "recvreq_bounded", "quick": ["search", "3"], "thorough": ["search", "4"], "obligation": "O-C13-order-N",
                    "fn": "RecvTransaction::finalize_receive (driven through process_pdu)", "file": "cfdp-daemon/src/transaction/recv.rs",
                    "bound": "every list of <= 3 (4 thorough) requests over 8 request kinds, file-less acknowledged-mode transaction, Finished indication observed"}],
        "level": "other",
        "technique": "deductive verification (Verus/Z3) of a contract on the request loop of RecvTransaction::finalize_receive and on the functions that forward its responses; + BOUNDED native check of the effect of each request on a real directory tree",
        "design_ref": "DESIGN.md 4/C13",
        "level_text": "Partial, proof of function contracts on the RECEIVER: when finalize_receive gets as far as the filestore requests (checksum verified or the fault ignored, file "
                      "copied without rejection) it produces exactly one response per request, in the order of the metadata; each response is the result of executing its own request "
                      "as long as no earlier response reported a failure, and the not-performed response for its own request after the first failure (loop invariant over the real "
                      "loop; `failing_before` is the code's fail_rest flag); on every other path the recorded responses are untouched. The Finished PDU (prepare_finished) and the "
                      "Finished indication (precondition of send_indication at every call site) carry exactly the recorded responses (the cancel path reports an empty list). "
                      "BOUNDED (recvreq_bounded: the real receive transaction driven with Metadata + EOF for every short request list): the Finished indication carries one response "
                      "per request, in order, executed up to the first failure and not-performed after it, and a request after the first failure has no effect on the tree - the "
                      "stand-in for the loop contract when the loop has been restructured beyond what the extractor follows. BOUNDED (fsreq_bounded, the real NativeFileStore in a sandbox): over a small enumeration of requests a request that reports failure changes nothing, and one "
                      "that reports success has exactly the effect defined for its action and no other. NOT decided: which status a failing request reports and whether a "
                      "request whose preconditions hold always succeeds (would need a reference model of the status codes), "
                      "'once' across calls of finalize_receive (that finalisation itself runs once is C04), that the sender forwards the list to its user unchanged.",
        "level_note": VERUS_NOTE + "Three calls on the opaque filestore types are declared rewrites to stubs: process_request -> `executed(r, req)`, is_fail -> `failed(r)`, "
                      "not_performed -> `r == not_performed_of(req)`; `#[derive(Clone)]` of FileStoreResponse is ASSUMED to copy the value.",
    },
    "C14": {
        "title": "The file checksum is the CCSDS modular checksum, however the data is read",
        "verus": [("checksum", ["O-C14-"])],
        "native": [{"prog": "checksum_bounded", "quick": ["search", "11"], "thorough": ["search", "16"], "obligation": "O-C14-reader-N",
                    "fn": "FileChecksum::checksum", "file": "cfdp-core/src/filestore.rs",
                    "bound": "content length 0..=N (N=11 quick, 16 thorough) x every split into read sizes; buffer-boundary lengths x 11 read schedules"}],
        "level": "other",
        "technique": "deductive verification (Verus/Z3) of the checksum accumulator + bounded exhaustive native check of the BufReader loop under short reads",
        "design_ref": "DESIGN.md 4/C14",
        "level_text": "Proof + bounded: the accumulator the checksum loop feeds (ModularChecksum::new/absorb/finish, extracted from filestore.rs) is "
                      "proved for chunks of ANY lengths and any content: finish() after absorbing c1,c2,.. = the 32-bit wrapping sum of the big-endian words "
                      "of the zero-padded concatenation (unbounded), and for that function any change of a single byte changes the value "
                      "(theorem_single_byte_change_changes_checksum). That FileChecksum::checksum feeds it exactly the reader's bytes, in order, once "
                      "(BufReader fill_buf/consume loop over a generic Read+Seek, outside Verus' subset) is checked BOUNDED by exhaustive enumeration: every "
                      "content length 0..=N with every split into read sizes, plus lengths around the 8 KiB buffer boundary; Null checksum = 0.",
        "level_note": VERUS_NOTE + "u32::from_be_bytes contract assumed via a wrapper (declared rewrite). The bounded part is labelled bounded and not counted as proved.",
    },
    "C15": {
        "title": "With the CRC option on, corrupted PDUs are rejected",
        "verus": [("crc", ["O-C15-"])],
        "native": [{"prog": "crc_accept_bounded", "quick": ["search", "quick"], "thorough": ["search", "thorough"], "obligation": "O-C15-accept-corpus",
                    "fn": "PDU::decode", "file": "cfdp-core/src/pdu.rs",
                    "bound": "60-PDU corpus x all single/double(<16)/burst(<=8 exhaustive, <=16 sampled) patterns after octet 4; EOF(cancel) x 2^16 checksums"}],
        "level": "other",
        "technique": "deductive verification (Verus/Z3) of the real CRC routines and of the CRC-16 error-detection algebra + bounded native check of the decoder's acceptance test",
        "design_ref": "DESIGN.md 4/C15",
        "level_text": "Proof + bounded. PROVED (unbounded, all message lengths): the real crc16/crc16_ibm_3740 (extracted from pdu.rs) compute "
                      "crc_from(0xFFFF, m) of the bit-serial CCITT definition; for that function a receiver comparing crc(received message) with the "
                      "received CRC rejects every error pattern over message+CRC that is a burst of <= 16 bits (single-bit and near double-bit errors "
                      "included), has an odd number of flipped bits, or is a double-bit error less than 32767 bits apart (tight) - theorem_crc_detects & co. "
                      "BOUNDED: that PDU::decode's acceptance test IS that comparison over the octets as received (and accepts unaltered PDUs) is checked "
                      "on a corpus of every PDU kind x file-size flags x id widths under all single/near-double/short-burst patterns and a 2^16 sweep of "
                      "the EOF checksum field for the condition-nibble burst that exposed the re-encoding defect.",
        "level_note": VERUS_NOTE + "Iterator::fold contract on slice iterators assumed. The bounded corpus check is labelled bounded and not counted as proved.",
    },
    "C16": {
        "title": "A datagram is decoded from its own bytes only",
        "verus": [("transport", ["O-C16-"])],
        "native": [{"prog": "transport_bounded", "quick": ["search", "quick"], "thorough": ["search", "thorough"], "obligation": "O-C16-own-bytes-N",
                    "fn": "UdpTransport::receive", "file": "cfdp-daemon/src/transport.rs",
                    "bound": "every corpus PDU (every kind, both file-size flags, CRC on/off, id widths 1,8; thorough 1,2,4,8) and every truncation of it, delivered over loop-back UDP after a "
                             "longer datagram (the same PDU in full; 200 octets of 0xFF / 0x00 / 0x05 file data)"}],
        "level": "other",
        "technique": "deductive verification (Verus/Z3) of the body of UdpTransport::receive, extracted with declared rewrites (async/.await dropped, socket and decoder calls bound to "
                     "contract stubs): the decoder's precondition `argument is exactly the received datagram` is discharged at its call site; + BOUNDED native check of the real "
                     "async method over loop-back UDP (differential against PDU::decode on the datagram's own bytes)",
        "design_ref": "DESIGN.md 4/C16",
        "level_text": "Proof + bounded. PROVED (all buffer contents, all datagram lengths, no bound): in UdpTransport::receive the slice handed to PDU::decode is exactly buffer[..n] for the n "
                      "the socket call of the same invocation returned - stated with an uninterpreted predicate is_datagram that the ASSUMED recv_from contract grants to that prefix only "
                      "and that the decoder stub requires, so any slice that can contain stale octets ([..], [..=n], [..len], min with the announced length, ...) fails the precondition; "
                      "a PDU returned as Ok is the decoder's result on that datagram. The text verified is the method body minus `async`/`.await` (declared rewrites, R11). "
                      "BOUNDED, not proved: for every (first, second) datagram pair of the enumeration, what the real async receive() returns for the second datagram equals what PDU::decode returns on the "
                      "second datagram's bytes alone - this also exercises what the stubs assume (tokio's recv_from, the decoder reading nothing beyond its slice). Other transports, "
                      "interleavings of several senders and the request() path are not covered.",
        "level_note": VERUS_NOTE + "Assumed: tokio UdpSocket::recv_from writes the datagram to the front of the buffer and returns its length (stub vx_recv_from); PDU::decode reads only the slice it is given "
                      "(safe Rust; its behaviour is C05/C06/C15). Native program replay/daemon_native/src/bin/transport_bounded.rs compiled against /repo's cfdp-daemon (path dependency; needs loop-back UDP on 127.0.0.1, as the "
                      "repository's own series tests do); it is labelled bounded and not counted as proved. A datagram not delivered within 5 s is reported as undecided (exit 2), never as a violation. ",
    },
    "C17": {
        "title": "Limit faults fire after exactly the configured expirations; set handler runs",
        "verus": [("timer", ["O-C17-"]), ("send", ["O-C17-"]), ("recv", ["O-C17-"])],
        "level": "proof",
        "technique": "deductive verification (Verus/Z3): Counter/Timer against an integer-nanosecond model, history theorem over abstract transitions, handler and timeout contracts",
        "design_ref": "DESIGN.md 4/C17",
        "level_text": "Partial, proof: every Counter/Timer method implements an abstract transition over integer nanoseconds (update counts exactly "
                      "floor(elapsed/timeout) expirations, saturating, carrying the remainder; restart keeps the count, reset clears it; paused counters do "
                      "not move; the update loop terminates); theorem over any history of such transitions under a monotone clock: the count reaches the "
                      "limit no earlier than limit x timeout after the last reset. handle_fault of both transactions takes exactly the configured action "
                      "(Cancel by default; Ignore continues untouched; Suspend freezes; Abandon terminates with nothing queued). Sender handle_timeout "
                      "declares a limit fault only with the count at its limit and arms an EOF retransmission only on an expired ACK timer. "
                      "Receiver handle_timeout likewise (its delayed-NAK prologue abstracted by a stub). "
                      "process_pdu of both transactions clears the inactivity count on every PDU from the peer (sender: while waiting after EOF) and an "
                      "ACK(EOF) stops the sender's ACK timer; send_naks declares NakLimitReached only with the NAK count at its limit and no new data since "
                      "the previous NAK, and clears the count when new data arrived. "
                      "NOT decided: the delayed-NAK prologue (stub), the sender's NAK splitter (stub), real time between calls.",
        "level_note": VERUS_NOTE + "Time model assumed: Instant/Duration as integer nanoseconds, Instant + Duration mathematical (std panics only after ~584 years), "
                      "duration_since saturating, Instant::now() arbitrary. Configuration assumptions never checked by the code: timeout > 0 (else update loops forever), "
                      "limit < u32::MAX.",
    },
    "C18": {
        "title": "Unacknowledged mode is one-way unless closure is requested; closure works",
        "verus": [("send", ["O-C18-"]), ("recv", ["O-C18-"])],
        "level": "proof",
        "technique": "deductive verification (Verus/Z3) of contracts on the sender's send_pdu / process_pdu / send_indication and of a one-way invariant over the receiver's functions",
        "design_ref": "DESIGN.md 4/C18",
        "level_text": "Partial, proof of function contracts on the SENDER: in unacknowledged mode send_pdu ends the transaction (state Terminated, Finished indication) "
                      "with the emission of the EOF when no closure was requested and leaves it waiting when closure was requested; process_pdu never queues a "
                      "retransmission or re-arms the EOF in unacknowledged mode, whatever the peer sends; with closure requested a Finished PDU ends the transaction and "
                      "its condition, delivery code and file status become the sender's, and every Finished indication carries exactly the outcome the transaction holds "
                      "(precondition of send_indication, checked at every call site); without closure a Finished PDU is refused. RECEIVER: the one-way invariant "
                      "(unacknowledged mode => no pending ACK, no prompt, empty NAK queue, no delayed NAK check, NAK timer never started) is a precondition of "
                      "send_pdu and is preserved by process_pdu, handle_timeout, suspend, resume, cancel, abandon, shutdown, handle_fault, store_file_data, "
                      "check_finished and the emitters; send_naks, send_ack_eof and answer_prompt require acknowledged mode, so an unacknowledged-mode receiver's "
                      "send_pdu can emit a Finished PDU only (new() establishing the invariant is by inspection). finalize_receive (verified body) records the delivery code "
                      "Complete only when the metadata and every byte of [0, EOF size) were in hand, in either mode, and prepare_finished / send_indication carry exactly "
                      "the recorded condition, delivery code and file status. NOT decided here: that the sender "
                      "transmits each file-data PDU once (first-pass tiling: C07), the waiting 'up to its limits' (timers: C17), and the two-party sentence as a whole.",
        "level_note": VERUS_NOTE,
    },
    "C19": {
        "title": "Suspend really suspends",
        "verus": [("timer", ["O-C19-"]), ("send", ["O-C19-"]), ("recv", ["O-C19-"])],
        "level": "proof",
        "technique": "deductive verification (Verus/Z3) of the send gates, suspend/resume and timeout contracts of both transactions",
        "design_ref": "DESIGN.md 4/C19",
        "level_text": "Partial, proof: while state = Suspended has_pdu_to_send() never offers a PDU that send_pdu's dispatch would emit as metadata, file "
                      "data, EOF (sender) or NAK, Finished (receiver); suspend() freezes every counter the transaction uses and a paused counter never "
                      "counts an expiration however long it stays paused, so sender handle_timeout changes nothing and until_timeout() is maximal; "
                      "resume() restarts the periods from the clock (paused time is not counted); send_pdu of both transactions, called under the daemon's "
                      "has_pdu_to_send() guard, reaches an emitter of a listed PDU kind only un-suspended (the emitters' preconditions), and a frozen "
                      "receiver handle_timeout declares no fault and re-arms nothing. NOT decided: that the transfer then completes as an unsuspended "
                      "one (= C02, liveness); send_naks/send_metadata bodies (stubs).",
        "level_note": VERUS_NOTE + "The daemon loop calls send_pdu only under has_pdu_to_send() (lib.rs select! guard, async, not verified).",
    },
    "C20": {
        "title": "Progress figures reported to users and peers are truthful",
        "verus": [("segments", ["O-C20-"]), ("recv", ["O-C20-"]), ("send", ["O-C20-"])],
        "search": ["segments"],
        "level": "proof",
        "technique": "deductive verification (Verus/Z3): merge returns the growth of the held byte set; every indication carrying progress is checked at its call site",
        "design_ref": "DESIGN.md 4/C20",
        "level_text": "Partial, proof: Segments::merge returns exactly the number of newly held distinct bytes (cardinality lemma), get_progress() of both "
                      "transactions returns the stored figure, and every Fault/Abandon/Resumed indication built in the verified functions carries that "
                      "figure (obligation on each send_indication call site), as does the keep-alive PDU built by answer_prompt; store_file_data keeps "
                      "received_file_size == byte count of the run list (adds exactly the PDU's range; assumes offset+length < 2^64), get_file_segment "
                      "sets the sender's progress to max(progress, end of the bytes read) only on first-pass reads, never on retransmissions. "
                      "NOT decided: that progress never exceeds the file size (relative to the assumed file contracts only).",
        "level_note": VERUS_NOTE,
    },
})

NOT_APPLICABLE = {
    "C01": "end-to-end equality of delivered and source file composes two entities, the link and two filesystems over a whole history; per-function contracts give only its lemmas (proved under C09, C14, C07); no contract within reach of Verus/Kani expresses the composition",
    "C02": "liveness of a two-party protocol under fault schedules; Verus and Kani prove safety of one call, not eventual completion",
    "C11": "isolation of concurrent tokio tasks and routing inside async fn forward_pdu: Kani has no async/thread support, Verus has no model of tokio channels; nothing here is a function contract",
}
