#!/usr/bin/env python3
"""Runner for the Kani C05 / C06 harness families of cfdp-core's PDU codec.

    families() -> {family: {"property", "kind", "bound", "harnesses", "quick_harnesses", "tier", "doc"}}
    run(family_names, repo="/repo", tier="quick", jobs=16, timeout_s=900) -> [result dict per harness]

See /verif/kani/README.md.  stdlib only.  CLI:
    python3 kani_run.py list
    python3 kani_run.py run [--repo R] [--tier quick|thorough] [--jobs N] [--timeout S] [--json OUT] FAMILY|HARNESS ...
"""
import hashlib
import importlib.util
import json
import os
import re
import shutil
import signal
import subprocess
import sys
import threading
import time

VERIF = os.path.dirname(os.path.abspath(__file__))
KANI_DIR = os.path.join(VERIF, "kani")
SRC_DIR = os.path.join(KANI_DIR, "core", "src")
REPLAY_SRC = os.path.join(VERIF, "replay", "pdu_replay", "src", "main.rs")
BUILD = os.path.join(VERIF, "build")
MEM_LIMIT_KB = int(os.environ.get("KANI_RUN_MEM_GB", "12")) * 1024 * 1024

_table = None


def _load_table():
    global _table
    if _table is None:
        spec = importlib.util.spec_from_file_location("verif_kani_gen", os.path.join(KANI_DIR, "gen.py"))
        gen = importlib.util.module_from_spec(spec)
        spec.loader.exec_module(gen)
        gen.build_table()
        _table = gen.emit()          # refreshes core/src/{harnesses,dispatch}.rs, table.json if stale
    return _table


def families():
    t = _load_table()
    out = {}
    for name, f in t["families"].items():
        hs = [h for h in t["harnesses"] if h["family"] == name]
        quick = [h["name"] for h in hs if h["tier"] == "quick"]
        out[name] = {
            "property": f["property"], "kind": f["kind"], "bound": f["bound"], "doc": f["doc"],
            "harnesses": [h["name"] for h in hs], "quick_harnesses": quick,
            "tier": "quick" if quick else "thorough",
        }
    return out


# ------------------------------------------------------------------------------------------------
# project generation
# ------------------------------------------------------------------------------------------------
def _sha(repo):
    return hashlib.sha1(os.path.abspath(repo).encode()).hexdigest()[:8]


def _write_if_changed(path, text):
    if os.path.exists(path) and open(path).read() == text:
        return
    os.makedirs(os.path.dirname(path), exist_ok=True)
    with open(path, "w") as f:
        f.write(text)


def _copy_if_changed(src, dst):
    data = open(src, "rb").read()
    if os.path.exists(dst) and open(dst, "rb").read() == data:
        return
    os.makedirs(os.path.dirname(dst), exist_ok=True)
    with open(dst, "wb") as f:
        f.write(data)


def make_project(repo):
    """Create /verif/build/kani/<sha>/ for the CURRENT working tree of `repo` (path dependency:
    cargo rebuilds cfdp-core whenever its sources changed)."""
    repo = os.path.abspath(repo)
    proj = os.path.join(BUILD, "kani", _sha(repo))
    _write_if_changed(os.path.join(proj, "Cargo.toml"), """[package]
name = "verif_kani_core"
version = "0.1.0"
edition = "2021"

[lib]
path = "src/lib.rs"

[dependencies]
cfdp-core = { path = "%s/cfdp-core" }
camino = "~1.2"

[workspace]

[lints.rust]
unexpected_cfgs = { level = "allow", check-cfg = ['cfg(kani)'] }
""" % repo)
    _write_if_changed(os.path.join(proj, ".cargo", "config.toml"), "[net]\noffline = true\n")
    lock = os.path.join(proj, "Cargo.lock")
    if not os.path.exists(lock) and os.path.exists(os.path.join(repo, "Cargo.lock")):
        shutil.copyfile(os.path.join(repo, "Cargo.lock"), lock)
    for fn in ("lib.rs", "util.rs", "checks.rs", "harnesses.rs", "dispatch.rs"):
        _copy_if_changed(os.path.join(SRC_DIR, fn), os.path.join(proj, "src", fn))
    with open(os.path.join(proj, "REPO"), "w") as f:
        f.write(repo + "\n")
    return proj


def build_replay(repo):
    """Build the native replay binary against `repo`.  Returns (path or None, log)."""
    repo = os.path.abspath(repo)
    proj = os.path.join(BUILD, "replay", "pdu_replay_" + _sha(repo))
    _write_if_changed(os.path.join(proj, "Cargo.toml"), """[package]
name = "pdu_replay"
version = "0.1.0"
edition = "2021"

[[bin]]
name = "pdu_replay"
path = "%s"

[dependencies]
cfdp-core = { path = "%s/cfdp-core" }
camino = "~1.2"

[workspace]

[lints.rust]
unexpected_cfgs = { level = "allow", check-cfg = ['cfg(kani)'] }

[profile.dev]
overflow-checks = true
debug-assertions = true
opt-level = 1
""" % (REPLAY_SRC, repo))
    _write_if_changed(os.path.join(proj, ".cargo", "config.toml"), "[net]\noffline = true\n")
    lock = os.path.join(proj, "Cargo.lock")
    if not os.path.exists(lock):
        shutil.copyfile(os.path.join(repo, "Cargo.lock"), lock)
    env = dict(os.environ, CARGO_NET_OFFLINE="true", CARGO_TARGET_DIR=os.path.join(proj, "target"))
    p = subprocess.run(["cargo", "build"], cwd=proj, env=env, stdout=subprocess.PIPE,
                       stderr=subprocess.STDOUT, text=True)
    exe = os.path.join(proj, "target", "debug", "pdu_replay")
    if p.returncode != 0 or not os.path.exists(exe):
        return None, p.stdout
    return exe, p.stdout


# ------------------------------------------------------------------------------------------------
# one cargo-kani invocation with timeout and memory watchdog
# ------------------------------------------------------------------------------------------------
def _group_rss_kb(pgid):
    total = 0
    for d in os.listdir("/proc"):
        if not d.isdigit():
            continue
        try:
            with open("/proc/%s/stat" % d) as f:
                st = f.read()
            rest = st[st.rindex(")") + 2:].split()
            if int(rest[2]) != pgid:          # field 5: pgrp
                continue
            total += int(rest[21]) * 4        # field 24: rss pages
        except (OSError, ValueError, IndexError):
            pass
    return total


def _run_cmd(cmd, cwd, log_path, timeout_s, append=False):
    """Returns (text, reason) where reason is None | 'timeout' | 'memory limit'."""
    env = dict(os.environ, CARGO_NET_OFFLINE="true")
    os.makedirs(os.path.dirname(log_path), exist_ok=True)
    with open(log_path, "ab" if append else "wb") as lf:
        lf.write(("$ " + " ".join(cmd) + "\n").encode())
        lf.flush()
        p = subprocess.Popen(cmd, cwd=cwd, env=env, stdout=lf, stderr=subprocess.STDOUT,
                             start_new_session=True)
        t0 = time.time()
        reason = None
        peak = 0
        while True:
            try:
                p.wait(timeout=2)
                break
            except subprocess.TimeoutExpired:
                pass
            if time.time() - t0 > timeout_s:
                reason = "timeout"
            else:
                rss = _group_rss_kb(p.pid)
                peak = max(peak, rss)
                if rss > MEM_LIMIT_KB:
                    reason = "memory limit (%d GB)" % (MEM_LIMIT_KB // 1024 // 1024)
            if reason:
                try:
                    os.killpg(p.pid, signal.SIGKILL)
                except OSError:
                    pass
                p.wait()
                break
        lf.write(("\n[kani_run] exit=%s reason=%s wall=%.1fs peak_rss=%dMB\n"
                  % (p.returncode, reason, time.time() - t0, peak // 1024)).encode())
    with open(log_path, errors="replace") as f:
        return f.read(), reason


_RE_FAILED = re.compile(r"Failed Checks: (.*)\n\s*File: \"([^\"]*)\", line (\d+)")
_RE_SUMMARY = re.compile(r"\*\* (\d+) of (\d+) failed")
_RE_COVER = re.compile(r"\*\* (\d+) of (\d+) cover properties satisfied")
_RE_TIME = re.compile(r"Verification Time: ([0-9.]+)s")


def _parse(text):
    r = {"verdict": None, "checks": 0, "failed_checks": [], "cover": None, "time": None}
    if "VERIFICATION:- SUCCESSFUL" in text:
        r["verdict"] = "ok"
    elif "VERIFICATION:- FAILED" in text:
        r["verdict"] = "failed"
    m = _RE_SUMMARY.findall(text)
    if m:
        r["checks"] = int(m[-1][1])
    m = _RE_COVER.findall(text)
    if m:
        r["cover"] = (int(m[-1][0]), int(m[-1][1]))
    seen = set()
    for d, f, l in _RE_FAILED.findall(text):
        k = (d.strip(), "%s:%s" % (f, l))
        if k not in seen:
            seen.add(k)
            r["failed_checks"].append({"description": k[0], "location": k[1]})
    # failed checks without a location line
    for d in re.findall(r"Failed Checks: (.*)\n(?!\s*File:)", text):
        k = (d.strip(), "")
        if k not in seen:
            seen.add(k)
            r["failed_checks"].append({"description": k[0], "location": ""})
    m = _RE_TIME.findall(text)
    if m:
        r["time"] = float(m[-1])
    return r


def _playback_bytes(text):
    """Concatenate the byte vectors of the first concrete-playback test that is not for a cover."""
    for m in re.finditer(r"/// Check for `([^`]*)`: \"([^\n]*)\"\n(.*?)kani::concrete_playback_run", text, re.S):
        if m.group(1) == "cover":
            continue
        vals = re.findall(r"vec!\[([0-9, ]*)\]", m.group(3))
        out = []
        for v in vals:
            out += [int(x) for x in v.replace(" ", "").split(",") if x != ""]
        return bytes(out)
    return None


def _kani_cmd(harness, target_dir, playback=False, harness_timeout=None):
    names = [harness] if isinstance(harness, str) else list(harness)
    cmd = ["cargo", "kani", "-Z", "stubbing"]
    if playback:
        cmd += ["-Z", "concrete-playback", "--concrete-playback=print"]
    if harness_timeout:
        cmd += ["-Z", "unstable-options", "--harness-timeout", "%ds" % harness_timeout]
    for n in names:
        cmd += ["--harness", "harnesses::" + n]
    cmd += ["--exact", "--target-dir", target_dir, "--output-format", "terse"]
    return cmd


def _verify_one(h, fam, proj, target_dir, log_dir, timeout_s, replay_exe, section=None, overhead_s=0.0):
    """Verify one harness (section None) or classify the section of a batch log that belongs to it."""
    name = h["name"]
    log = os.path.join(log_dir, name + ".log")
    res = {"harness": name, "family": h["family"], "property": fam["property"], "status": "undecided",
           "kind": fam["kind"], "bound": fam["bound"], "checks": 0, "failed_checks": [], "time_s": 0.0,
           "cover_satisfied": False, "input_hex": None, "native_replay": None, "log": log, "reason": ""}
    t0 = time.time()
    if section is None:
        text, reason = _run_cmd(_kani_cmd(name, target_dir), proj, log, timeout_s)
        res["time_s"] = round(time.time() - t0, 1)
    else:
        text, reason = section, None
        with open(log, "w") as lf:
            lf.write(section)
        m = _RE_TIME.findall(section)
        res["time_s"] = round((float(m[-1]) if m else 0.0) + overhead_s, 1)
        t0 -= res["time_s"]
        if "CBMC timed out" in section:
            reason = "timeout"
    p = _parse(text)
    res["checks"] = p["checks"]
    res["failed_checks"] = p["failed_checks"]
    res["cover_satisfied"] = bool(p["cover"] and p["cover"][0] == p["cover"][1])
    if reason:
        res["reason"] = reason
        return res
    if p["verdict"] is None:
        if "CBMC appears to have run out of memory" in text or "out of memory" in text:
            res["reason"] = "out of memory"
        elif "error: could not compile" in text or "error[" in text or "Failed to compile" in text:
            res["reason"] = "build error"
        else:
            res["reason"] = "no verification result (see log)"
        return res
    if p["verdict"] == "ok":
        if res["cover_satisfied"]:
            res["status"] = "ok"
        else:
            res["reason"] = "vacuous: cover properties not satisfied %s" % (p["cover"],)
        return res
    # FAILED
    descs = " ".join(c["description"] for c in p["failed_checks"])
    if "out of memory" in text:
        res["reason"] = "out of memory"
        return res
    if "unwinding assertion" in descs and all("unwinding assertion" in c["description"]
                                              for c in p["failed_checks"]):
        res["reason"] = "unwinding assertion failed (unwind bound too small)"
        return res
    if not p["failed_checks"]:
        if "unsupported" in text.lower():
            res["reason"] = "unsupported feature reachable"
        else:
            res["reason"] = "verification failed without a failed check (see log)"
        return res
    # Cheap route first: a native search of the same check function for a misbehaving input
    # (corner patterns + 20000 pseudo-random inputs, < 1 s).  Kani has already shown that a check
    # fails; a natively misbehaving input is the confirmation the status rules ask for and saves a
    # second, 3-4x more expensive CBMC run with trace generation.
    if replay_exe is not None:
        try:
            sp = subprocess.run([replay_exe, "search", name], stdout=subprocess.PIPE,
                                stderr=subprocess.STDOUT, text=True, timeout=60)
            m = re.match(r"FOUND ([0-9a-f]*) (.*)", sp.stdout.strip())
        except subprocess.TimeoutExpired:
            m = None
        if m:
            res["input_hex"] = m.group(1)
            res["native_replay"] = {"confirmed": True, "output": m.group(2),
                                    "source": "native search of the check Kani reported as failing"}
            res["status"] = "fail"
            with open(log, "a") as lf:
                lf.write("\n[kani_run] native search %s -> %s\n" % (name, sp.stdout.strip()))
            return res
    # counterexample extraction (concrete playback) + native replay
    text2, reason2 = _run_cmd(_kani_cmd(name, target_dir, playback=True), proj, log,
                              min(timeout_s, max(120, int(3 * (p["time"] or 60)))), append=True)
    res["time_s"] = round(time.time() - t0, 1)
    if reason2:
        res["reason"] = "check failed, but counterexample extraction hit " + reason2
        return res
    data = _playback_bytes(text2[len(text):] if text2.startswith(text) else text2)
    if data is None:
        res["reason"] = "check failed, but no concrete counterexample could be extracted"
        return res
    data = data[:h["K"]] + bytes(max(0, h["K"] - len(data)))
    res["input_hex"] = data.hex()
    if replay_exe is None:
        res["reason"] = "check failed, native replay binary unavailable"
        return res
    try:
        rp = subprocess.run([replay_exe, name, data.hex()], stdout=subprocess.PIPE,
                            stderr=subprocess.STDOUT, text=True, timeout=60)
        out, code = rp.stdout.strip(), rp.returncode
    except subprocess.TimeoutExpired:
        out, code = "TIMEOUT: native replay did not terminate within 60 s", 1
    res["native_replay"] = {"confirmed": code == 1, "output": out}
    with open(log, "a") as lf:
        lf.write("\n[kani_run] native replay %s %s -> exit %d: %s\n" % (name, data.hex(), code, out))
    if code == 1:
        res["status"] = "fail"
    else:
        res["reason"] = "kani counterexample did not reproduce natively"
    return res


def _verify_batch(batch, fams, proj, target_dir, log_dir, timeout_s, replay_exe):
    """One `cargo kani` invocation for several harnesses: the harness crate is compiled once for the
    whole batch (compilation + cargo/kani-driver start-up is ~20 s of CPU per invocation, more than
    most of the CBMC runs).  Kani enforces the per-harness timeout (--harness-timeout).  Harnesses
    without a verdict in the batch log (batch killed by the memory watchdog, build error, ...) are
    re-run one by one."""
    if len(batch) == 1:
        return [_verify_one(batch[0], fams[batch[0]["family"]], proj, target_dir, log_dir, timeout_s, replay_exe)]
    log = os.path.join(log_dir, "_batch_%s.log" % batch[0]["name"])
    t0 = time.time()
    text, reason = _run_cmd(_kani_cmd([h["name"] for h in batch], target_dir, harness_timeout=timeout_s),
                            proj, log, timeout_s * len(batch) + 600)
    wall = time.time() - t0
    parts = re.split(r"^Checking harness harnesses::(\S+?)\.\.\.\s*$", text, flags=re.M)
    sections = {}
    for i in range(1, len(parts) - 1, 2):
        body = parts[i + 1]
        body = body.split("Manual Harness Summary:")[0]
        sections[parts[i]] = "Checking harness harnesses::%s...\n%s" % (parts[i], body)
    cbmc = sum(float(x) for x in _RE_TIME.findall(text))
    overhead = max(0.0, wall - cbmc) / len(batch)
    out = []
    for h in batch:
        sec = sections.get(h["name"])
        if sec is not None and ("VERIFICATION:-" in sec):
            out.append(_verify_one(h, fams[h["family"]], proj, target_dir, log_dir, timeout_s, replay_exe,
                                   section="[kani_run] from batch log %s\n%s" % (log, sec),
                                   overhead_s=overhead))
        else:
            out.append(_verify_one(h, fams[h["family"]], proj, target_dir, log_dir, timeout_s, replay_exe))
    return out


# ------------------------------------------------------------------------------------------------
# run
# ------------------------------------------------------------------------------------------------
def select(names, tier="quick"):
    """family names and/or harness names -> harness dicts"""
    t = _load_table()
    out = []
    seen = set()
    for n in names:
        hit = False
        for h in t["harnesses"]:
            if h["name"] == n or (h["family"] == n and (tier == "thorough" or h["tier"] == "quick")):
                hit = True
                if h["name"] not in seen:
                    seen.add(h["name"])
                    out.append(h)
        if not hit and n not in t["families"]:
            raise KeyError("unknown family / harness: %s" % n)
    return out


def run(family_names, repo="/repo", tier="quick", jobs=16, timeout_s=900, progress=None, batch=8):
    t = _load_table()
    hs = select(family_names, tier)
    proj = make_project(repo)
    sha = _sha(repo)
    log_dir = os.path.join(BUILD, "kani", "logs", sha)
    os.makedirs(log_dir, exist_ok=True)
    replay_exe, replay_log = build_replay(repo)
    with open(os.path.join(log_dir, "_replay_build.log"), "w") as f:
        f.write(replay_log)
    if not hs:
        return []
    # batches of consecutive harnesses of one family (similar reachable code)
    batches = []
    need_seed = not all(os.path.isdir(os.path.join(proj, "target-w%d" % i)) for i in range(max(1, jobs)))
    for k, h in enumerate(hs):
        if need_seed and k == 1:
            batches.append([k])       # the seeding batch is the first harness alone
            continue
        if batches and len(batches[-1]) < batch and hs[batches[-1][0]]["family"] == h["family"]:
            batches[-1].append(k)
        else:
            batches.append([k])
    jobs = max(1, min(jobs, len(batches)))
    results = [None] * len(hs)
    lock = threading.Lock()
    nxt = [0]

    def tdir(i):
        return os.path.join(proj, "target-w%d" % i)

    def work(i):
        while True:
            with lock:
                k = nxt[0]
                nxt[0] += 1
            if k >= len(batches):
                return
            rs = _verify_batch([hs[j] for j in batches[k]], t["families"], proj, tdir(i), log_dir,
                               timeout_s, replay_exe)
            for j, r in zip(batches[k], rs):
                results[j] = r
                if progress:
                    progress(r)

    # Every `cargo kani --harness X` recompiles the harness crate for X (reachability is per
    # harness), so concurrent invocations must not share a target directory.  Worker 0 runs the
    # first harness alone, which also builds the dependencies; its target directory is then cloned
    # for the workers that have none yet (cloning takes ~1 s, a cold dependency build ~40 s).
    if not os.path.isdir(tdir(0)) or jobs > 1 and not all(os.path.isdir(tdir(i)) for i in range(jobs)):
        with lock:
            k = nxt[0]
            nxt[0] += 1
        rs = _verify_batch([hs[j] for j in batches[k]], t["families"], proj, tdir(0), log_dir,
                           timeout_s, replay_exe)
        for j, r in zip(batches[k], rs):
            results[j] = r
            if progress:
                progress(r)
        for i in range(1, jobs):
            if not os.path.isdir(tdir(i)):
                subprocess.run(["cp", "-a", tdir(0), tdir(i)], check=False)
    threads = [threading.Thread(target=work, args=(i,)) for i in range(jobs)]
    for th in threads:
        th.start()
    for th in threads:
        th.join()
    return results


def summarize(results):
    by = {}
    for r in results:
        d = by.setdefault(r["family"], {"ok": 0, "fail": 0, "undecided": 0, "time": 0.0})
        d[r["status"]] += 1
        d["time"] += r["time_s"]
    return by


def _main(argv):
    if len(argv) >= 2 and argv[1] == "list":
        for n, f in families().items():
            print("%-22s %-4s %-8s tier=%-8s quick=%-4d all=%-4d %s" % (
                n, f["property"], f["kind"], f["tier"], len(f["quick_harnesses"]), len(f["harnesses"]),
                f["bound"][:70]))
        return 0
    if len(argv) >= 2 and argv[1] == "run":
        import argparse
        ap = argparse.ArgumentParser()
        ap.add_argument("--repo", default="/repo")
        ap.add_argument("--tier", default="quick")
        ap.add_argument("--jobs", type=int, default=16)
        ap.add_argument("--timeout", type=int, default=900)
        ap.add_argument("--batch", type=int, default=8)
        ap.add_argument("--json")
        ap.add_argument("names", nargs="+")
        a = ap.parse_args(argv[2:])
        t0 = time.time()

        def prog(r):
            extra = ""
            if r["status"] == "fail":
                extra = " %s | %s | %s" % (r["failed_checks"][0]["description"][:60] if r["failed_checks"] else "",
                                           r["input_hex"], (r["native_replay"] or {}).get("output", "")[:90])
            elif r["status"] == "undecided":
                extra = " " + r["reason"]
            print("%-9s %7.1fs %s%s" % (r["status"], r["time_s"], r["harness"], extra), flush=True)
        names = list(families().keys()) if a.names == ["all"] else a.names
        res = run(names, a.repo, a.tier, a.jobs, a.timeout, progress=prog, batch=a.batch)
        wall = time.time() - t0
        print("---- %d harnesses, wall %.0f s" % (len(res), wall))
        for fam, d in summarize(res).items():
            print("%-22s ok=%-4d fail=%-4d undecided=%-4d cpu=%.0fs" % (fam, d["ok"], d["fail"],
                                                                      d["undecided"], d["time"]))
        if a.json:
            with open(a.json, "w") as f:
                json.dump({"wall_s": wall, "repo": a.repo, "tier": a.tier, "results": res}, f, indent=1)
        return 0
    print(__doc__)
    return 2


if __name__ == "__main__":
    sys.exit(_main(sys.argv))
