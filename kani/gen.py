#!/usr/bin/env python3
"""Generator for the C05 / C06 Kani harnesses of cfdp-core's PDU codec.

Writes  core/src/harnesses.rs  (one #[kani::proof] per concrete shape),
        core/src/dispatch.rs   (the same calls by name, for the native replay binary) and
        core/src/table.json    (family / harness table read by /verif/kani_run.py).

The wire format lives here as *layout functions*: each returns a template, a list of octets
(and, or) meaning  wire[i] = (pool[i] & and) | or .  (0, c) is the concrete octet c (type and
length octets), (0xff, 0) a free octet.  A layout returns two templates: the wire and its canonical
re-encoding (they differ when the wire carries octets the decoder ignores).  The concrete octets of
the canonical template are the "pins" the Rust checks assert on encode()'s output.
"""
import itertools
import json
import os
import sys

HERE = os.path.dirname(os.path.abspath(__file__))
SRC = os.path.join(HERE, "core", "src")

S = (0xFF, 0)          # free octet
A = (0x7F, 0)          # free ASCII octet


def C(v):
    assert 0 <= v <= 255, v
    return (0, v)


def pins_of(canon, base=0):
    return [(base + i, o) for i, (a, o) in enumerate(canon) if a == 0]


WIDTHS = (1, 2, 4, 8)


def fsz(fss):
    return 4 if fss == "Small" else 8


# ------------------------------------------------------------------------------------------------
# layouts (wire == canonical unless stated)
# ------------------------------------------------------------------------------------------------
def lv(n, kind=S):
    return [C(n)] + [kind] * n


def varid_enc(w):                       # VariableID::encode: (width-1) ++ value
    return [C(w - 1)] + [S] * w


def fsreq(l1, l2, kind=S):
    return [S] + lv(l1, kind) + lv(l2, kind)


def fsresp(l1, l2, lm, kind=S):
    return [S] + lv(l1, kind) + lv(l2, kind) + lv(lm)


def tlv(shape, kind=S):
    """Metadata TLV as cfdp-core encodes it (NB: no length octet after the type for requests,
    responses and fault handler overrides; that is the implementation's format)."""
    k = shape[0]
    if k == "FsReq":
        return [C(0x00)] + fsreq(shape[1], shape[2], kind)
    if k == "FsResp":
        return [C(0x01)] + fsresp(shape[1], shape[2], shape[3], kind)
    if k == "Msg":
        return [C(0x02)] + lv(shape[1])
    if k == "Fho":
        return [C(0x04), S]
    if k == "Flow":
        return [C(0x05)] + lv(shape[1])
    if k == "Eid":
        return [C(0x06)] + varid_enc(shape[1])
    raise ValueError(shape)


def tlv_rs(shape):
    k = shape[0]
    return "Tlv::%s%s" % (k, "(%s)" % ", ".join(map(str, shape[1:])) if len(shape) > 1 else "")


def tlv_name(shape):
    return shape[0].lower() + "".join(str(x) for x in shape[1:])


def payload(fss, p, kind=S):
    """PDU payload (directive code included).  Returns (wire, canon)."""
    k = p[0]
    f = fsz(fss)
    if k == "Eof":
        t = [C(0x04), S] + [S] * 4 + [S] * f
        if p[1] is not None:
            t += [C(0x06)] + varid_enc(p[1])
        return t, t
    if k == "Fin":
        t = [C(0x05), S]
        for (l1, l2, lm) in p[1]:
            body = fsresp(l1, l2, lm, kind)
            t += [C(0x01), C(len(body))] + body
        if p[3] is not None:
            t += [C(0x06)] + varid_enc(p[3])
        return t, t
    if k == "Ack":
        t = [C(0x06), S, S]
        return t, t
    if k == "Meta":
        t = [C(0x07), S] + [S] * f + lv(p[1], kind) + lv(p[2], kind)
        for o in p[3]:
            t += tlv(o, kind)
        return t, t
    if k == "Nak":
        t = [C(0x08)] + [S] * (2 * f) + [S] * (2 * f * p[1])
        return t, t
    if k == "Prompt":
        t = [C(0x09), S]
        return t, t
    if k == "KeepAlive":
        t = [C(0x0C)] + [S] * f
        return t, t
    if k == "Unseg":
        t = [S] * f + [S] * p[1]
        return t, t
    if k == "Seg":
        # first octet = record continuation state (2 bits) | metadata length (6 bits): the whole
        # octet must be concrete, so the continuation state is part of the shape (p[3]) when a
        # template is needed; for pins (constructive check) the octet is not pinned.
        rcs = p[3] if len(p) > 3 else None
        first = C((rcs << 6) | p[1]) if rcs is not None else S
        t = [first] + [S] * p[1] + [S] * f + [S] * p[2]
        return t, t
    raise ValueError(p)


def pl_rs(p):
    k = p[0]

    def opt(w):
        return "None" if w is None else "Some(%d)" % w
    if k == "Eof":
        return "Pl::Eof(%s)" % opt(p[1])
    if k == "Fin":
        return "Pl::Fin(&[%s], %s, %s)" % (
            ", ".join("(%d, %d, %d)" % r for r in p[1]), "true" if p[2] else "false", opt(p[3]))
    if k == "Meta":
        return "Pl::Meta(%d, %d, &[%s])" % (p[1], p[2], ", ".join(tlv_rs(o) for o in p[3]))
    if k == "Nak":
        return "Pl::Nak(%d)" % p[1]
    if k == "Unseg":
        return "Pl::Unseg(%d)" % p[1]
    if k == "Seg":
        return "Pl::Seg(%d, %d)" % (p[1], p[2])
    return "Pl::%s" % k


def pl_name(p):
    k = p[0]

    def w(x):
        return "n" if x is None else "w%d" % x
    if k == "Eof":
        return "eof_" + w(p[1])
    if k == "Fin":
        return "fin_%s%s_%s" % ("e" if p[2] else "ok",
                                 "".join("_r%d%d%d" % r for r in p[1]), w(p[3]))
    if k == "Meta":
        return "meta_%d_%d%s" % (p[1], p[2], "".join("_" + tlv_name(o) for o in p[3]))
    if k == "Nak":
        return "nak%d" % p[1]
    if k == "Unseg":
        return "unseg%d" % p[1]
    if k == "Seg":
        return "seg%d_%d" % (p[1], p[2]) + ("_s%d" % p[3] if len(p) > 3 else "")
    return k.lower()


def pl_is_filedata(p):
    return p[0] in ("Unseg", "Seg")


def header(we, ws, plen, crc, fss, p_filedata, seg, segctl=0, first_free=False):
    """PDU header.  Octet 0 and octet 3 carry flags that decide how the rest is parsed, so both are
    fully concrete in a template (version 001, direction 0, mode 0).  For the constructive PDU
    check octet 0 is not pinned (first_free) because version/direction/mode are symbolic there."""
    b0 = (1 << 5) | ((1 if p_filedata else 0) << 4) | ((1 if crc else 0) << 1) | (1 if fss == "Large" else 0)
    field = plen + (2 if crc else 0)
    assert field <= 0xFFFF
    b3 = (segctl << 7) | ((we - 1) << 4) | ((1 if seg else 0) << 3) | (ws - 1)
    return [S if first_free else C(b0), C(field >> 8), C(field & 0xFF), C(b3)] + [S] * (we + ws + we)


def userop(u, kind=S):
    """Reserved CFDP user operation: "cfdp" ++ message type ++ body.  Returns (wire, canon)."""
    k = u[0]
    pre = [C(0x63), C(0x66), C(0x64), C(0x70)]

    def ids(we, ws):
        return [C(((we - 1) << 4) | (ws - 1))] + [S] * (we + ws)

    def with_len(body):
        return [C(len(body))] + body
    if k == "OrigTx":
        t = [C(0x0A)] + ids(u[1], u[2])
    elif k == "ProxyPut":
        t = [C(0x00), C(u[1])] + [S] * u[1] + lv(u[2], kind) + lv(u[3], kind)
    elif k == "ProxyMsg":
        t = [C(0x01)] + lv(u[1])
    elif k == "ProxyFsReq":
        t = [C(0x02)] + with_len(fsreq(u[1], u[2], kind))
    elif k == "ProxyFho":
        t = [C(0x03), S]
    elif k == "ProxyTm":
        t = [C(0x04), S]
    elif k == "ProxyFlow":
        t = [C(0x05)] + lv(u[1])
    elif k == "ProxySegCtrl":
        t = [C(0x06), S]
    elif k == "ProxyPutCancel":
        t = [C(0x09)]
    elif k == "RespProxyPut":
        t = [C(0x07), S]
    elif k == "RespFs":
        t = [C(0x08)] + with_len(fsresp(u[1], u[2], u[3], kind))
    elif k == "RespDirList":
        t = [C(0x11), S] + lv(u[1], kind) + lv(u[2], kind)
    elif k == "RespStatus":
        t = [C(0x21), S] + ids(u[1], u[2])
    elif k == "RespSuspend":
        t = [C(0x31), S] + ids(u[1], u[2])
    elif k == "RespResume":
        t = [C(0x39), S] + ids(u[1], u[2])
    elif k == "ReqDirList":
        t = [C(0x10)] + lv(u[1], kind) + lv(u[2], kind)
    elif k == "ReqStatus":
        t = [C(0x20)] + ids(u[1], u[2]) + lv(u[3], kind)
    elif k == "ReqSuspend":
        t = [C(0x30)] + ids(u[1], u[2])
    elif k == "ReqResume":
        t = [C(0x38)] + ids(u[1], u[2])
    elif k == "SfoRequest":      # label len, src width, dst width, name lens
        t = [C(0x40), S, S] + lv(u[1]) + [C(u[2])] + [S] * u[2] + [C(u[3])] + [S] * u[3] \
            + lv(u[4], kind) + lv(u[5], kind)
    elif k == "SfoMsg":
        t = [C(0x41)] + lv(u[1])
    elif k == "SfoFlow":
        t = [C(0x42)] + lv(u[1])
    elif k == "SfoFho":
        t = [C(0x43), S]
    elif k == "SfoFsReq":
        t = [C(0x44)] + with_len(fsreq(u[1], u[2], kind))
    elif k == "SfoReport":       # label len, src, dst, reporting widths
        t = [C(0x45)] + lv(u[1]) + [C(u[2])] + [S] * u[2] + [C(u[3])] + [S] * u[3] \
            + [C(u[4])] + [S] * u[4] + [S, S, S]
    elif k == "SfoFsResp":
        t = [C(0x46)] + with_len(fsresp(u[1], u[2], u[3], kind))
    else:
        raise ValueError(u)
    return pre + t, pre + t


def uo_rs(u):
    return "Uo::%s%s" % (u[0], "(%s)" % ", ".join(map(str, u[1:])) if len(u) > 1 else "")


def uo_name(u):
    return u[0].lower() + ("_" + "_".join(str(x) for x in u[1:]) if len(u) > 1 else "")
