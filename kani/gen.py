#!/usr/bin/env python3
"""Generator for the C05 / C06 Kani harnesses of cfdp-core's PDU codec.

Writes  core/src/harnesses.rs  (one #[kani::proof] per concrete shape),
        core/src/dispatch.rs   (the same calls by name, for the native replay binary) and
        core/src/table.json    (family / harness table read by /verif/kani_run.py).

The wire format lives here as *layout functions*: each returns a template, a list of octets
(and, or) meaning  wire[i] = (pool[i] & and) | or .  (0, c) is the concrete octet c (type and
length octets), (0xff, 0) a free octet.  A layout returns two templates: the wire and its canonical
re-encoding (they differ when the wire carries octets the decoder ignores).  The concrete octets of
the canonical template are the "pins" the Rust checks assert on encode()'s output.
"""
import itertools
import json
import os
import sys

HERE = os.path.dirname(os.path.abspath(__file__))
SRC = os.path.join(HERE, "core", "src")

S = (0xFF, 0)          # free octet
A = (0x7F, 0)          # free ASCII octet


def C(v):
    assert 0 <= v <= 255, v
    return (0, v)


def pins_of(canon, base=0):
    return [(base + i, o) for i, (a, o) in enumerate(canon) if a == 0]


WIDTHS = (1, 2, 4, 8)


def fsz(fss):
    return 4 if fss == "Small" else 8


# ------------------------------------------------------------------------------------------------
# layouts (wire == canonical unless stated)
# ------------------------------------------------------------------------------------------------
def lv(n, kind=S):
    return [C(n)] + [kind] * n


def varid_enc(w):                       # VariableID::encode: (width-1) ++ value
    return [C(w - 1)] + [S] * w


def fsreq(l1, l2, kind=S):
    return [S] + lv(l1, kind) + lv(l2, kind)


def fsresp(l1, l2, lm, kind=S):
    return [S] + lv(l1, kind) + lv(l2, kind) + lv(lm)


def tlv(shape, kind=S):
    """Metadata TLV as cfdp-core encodes it (NB: no length octet after the type for requests,
    responses and fault handler overrides; that is the implementation's format)."""
    k = shape[0]
    if k == "FsReq":
        return [C(0x00)] + fsreq(shape[1], shape[2], kind)
    if k == "FsResp":
        return [C(0x01)] + fsresp(shape[1], shape[2], shape[3], kind)
    if k == "Msg":
        return [C(0x02)] + lv(shape[1])
    if k == "Fho":
        return [C(0x04), S]
    if k == "Flow":
        return [C(0x05)] + lv(shape[1])
    if k == "Eid":
        return [C(0x06)] + varid_enc(shape[1])
    raise ValueError(shape)


def tlv_rs(shape):
    k = shape[0]
    return "Tlv::%s%s" % (k, "(%s)" % ", ".join(map(str, shape[1:])) if len(shape) > 1 else "")


def tlv_name(shape):
    return shape[0].lower() + "".join(str(x) for x in shape[1:])


def payload(fss, p, kind=S):
    """PDU payload (directive code included).  Returns (wire, canon)."""
    k = p[0]
    f = fsz(fss)
    if k == "Eof":
        t = [C(0x04), S] + [S] * 4 + [S] * f
        if p[1] is not None:
            t += [C(0x06)] + varid_enc(p[1])
        return t, t
    if k == "Fin":
        t = [C(0x05), S]
        for (l1, l2, lm) in p[1]:
            body = fsresp(l1, l2, lm, kind)
            t += [C(0x01), C(len(body))] + body
        if p[3] is not None:
            t += [C(0x06)] + varid_enc(p[3])
        return t, t
    if k == "Ack":
        t = [C(0x06), S, S]
        return t, t
    if k == "Meta":
        t = [C(0x07), S] + [S] * f + lv(p[1], kind) + lv(p[2], kind)
        for o in p[3]:
            t += tlv(o, kind)
        return t, t
    if k == "Nak":
        t = [C(0x08)] + [S] * (2 * f) + [S] * (2 * f * p[1])
        return t, t
    if k == "Prompt":
        t = [C(0x09), S]
        return t, t
    if k == "KeepAlive":
        t = [C(0x0C)] + [S] * f
        return t, t
    if k == "Unseg":
        t = [S] * f + [S] * p[1]
        return t, t
    if k == "Seg":
        # first octet = record continuation state (2 bits) | metadata length (6 bits): the whole
        # octet must be concrete, so the continuation state is part of the shape (p[3]) when a
        # shape (p[3]).
        t = [C((p[3] << 6) | p[1])] + [S] * p[1] + [S] * f + [S] * p[2]
        return t, t
    raise ValueError(p)


def pl_rs(p):
    k = p[0]

    def opt(w):
        return "None" if w is None else "Some(%d)" % w
    if k == "Eof":
        return "Pl::Eof(%s)" % opt(p[1])
    if k == "Fin":
        return "Pl::Fin(&[%s], %s, %s)" % (
            ", ".join("(%d, %d, %d)" % r for r in p[1]), "true" if p[2] else "false", opt(p[3]))
    if k == "Meta":
        return "Pl::Meta(%d, %d, &[%s])" % (p[1], p[2], ", ".join(tlv_rs(o) for o in p[3]))
    if k == "Nak":
        return "Pl::Nak(%d)" % p[1]
    if k == "Unseg":
        return "Pl::Unseg(%d)" % p[1]
    if k == "Seg":
        return "Pl::Seg(%d, %d, %d)" % (p[1], p[2], p[3])
    return "Pl::%s" % k


def pl_name(p):
    k = p[0]

    def w(x):
        return "n" if x is None else "w%d" % x
    if k == "Eof":
        return "eof_" + w(p[1])
    if k == "Fin":
        return "fin_%s%s_%s" % ("e" if p[2] else "ok",
                                 "".join("_r%d%d%d" % r for r in p[1]), w(p[3]))
    if k == "Meta":
        return "meta_%d_%d%s" % (p[1], p[2], "".join("_" + tlv_name(o) for o in p[3]))
    if k == "Nak":
        return "nak%d" % p[1]
    if k == "Unseg":
        return "unseg%d" % p[1]
    if k == "Seg":
        return "seg%d_%d_s%d" % (p[1], p[2], p[3])
    return k.lower()


def pl_is_filedata(p):
    return p[0] in ("Unseg", "Seg")


def header(we, ws, plen, crc, fss, p_filedata, seg, segctl=0, first_free=False):
    """PDU header.  Octet 0 and octet 3 carry flags that decide how the rest is parsed, so both are
    fully concrete in a template (version 001, direction 0, mode 0).  For the constructive PDU
    check octet 0 is not pinned (first_free) because version/direction/mode are symbolic there."""
    b0 = (1 << 5) | ((1 if p_filedata else 0) << 4) | ((1 if crc else 0) << 1) | (1 if fss == "Large" else 0)
    field = plen + (2 if crc else 0)
    assert field <= 0xFFFF
    b3 = (segctl << 7) | ((we - 1) << 4) | ((1 if seg else 0) << 3) | (ws - 1)
    return [S if first_free else C(b0), C(field >> 8), C(field & 0xFF), C(b3)] + [S] * (we + ws + we)


def userop(u, kind=S):
    """Reserved CFDP user operation: "cfdp" ++ message type ++ body.  Returns (wire, canon)."""
    k = u[0]
    pre = [C(0x63), C(0x66), C(0x64), C(0x70)]

    def ids(we, ws):
        return [C(((we - 1) << 4) | (ws - 1))] + [S] * (we + ws)

    def with_len(body):
        return [C(len(body))] + body
    if k == "OrigTx":
        t = [C(0x0A)] + ids(u[1], u[2])
    elif k == "ProxyPut":
        t = [C(0x00), C(u[1])] + [S] * u[1] + lv(u[2], kind) + lv(u[3], kind)
    elif k == "ProxyMsg":
        t = [C(0x01)] + lv(u[1])
    elif k == "ProxyFsReq":
        t = [C(0x02)] + with_len(fsreq(u[1], u[2], kind))
    elif k == "ProxyFho":
        t = [C(0x03), S]
    elif k == "ProxyTm":
        t = [C(0x04), S]
    elif k == "ProxyFlow":
        t = [C(0x05)] + lv(u[1])
    elif k == "ProxySegCtrl":
        t = [C(0x06), S]
    elif k == "ProxyPutCancel":
        t = [C(0x09)]
    elif k == "RespProxyPut":
        t = [C(0x07), S]
    elif k == "RespFs":
        t = [C(0x08)] + with_len(fsresp(u[1], u[2], u[3], kind))
    elif k == "RespDirList":
        t = [C(0x11), S] + lv(u[1], kind) + lv(u[2], kind)
    elif k == "RespStatus":
        t = [C(0x21), S] + ids(u[1], u[2])
    elif k == "RespSuspend":
        t = [C(0x31), S] + ids(u[1], u[2])
    elif k == "RespResume":
        t = [C(0x39), S] + ids(u[1], u[2])
    elif k == "ReqDirList":
        t = [C(0x10)] + lv(u[1], kind) + lv(u[2], kind)
    elif k == "ReqStatus":
        t = [C(0x20)] + ids(u[1], u[2]) + lv(u[3], kind)
    elif k == "ReqSuspend":
        t = [C(0x30)] + ids(u[1], u[2])
    elif k == "ReqResume":
        t = [C(0x38)] + ids(u[1], u[2])
    elif k == "SfoRequest":      # label len, src width, dst width, name lens
        t = [C(0x40), S, S] + lv(u[1]) + [C(u[2])] + [S] * u[2] + [C(u[3])] + [S] * u[3] \
            + lv(u[4], kind) + lv(u[5], kind)
    elif k == "SfoMsg":
        t = [C(0x41)] + lv(u[1])
    elif k == "SfoFlow":
        t = [C(0x42)] + lv(u[1])
    elif k == "SfoFho":
        t = [C(0x43), S]
    elif k == "SfoFsReq":
        t = [C(0x44)] + with_len(fsreq(u[1], u[2], kind))
    elif k == "SfoReport":       # label len, src, dst, reporting widths
        t = [C(0x45)] + lv(u[1]) + [C(u[2])] + [S] * u[2] + [C(u[3])] + [S] * u[3] \
            + [C(u[4])] + [S] * u[4] + [S, S, S]
    elif k == "SfoFsResp":
        t = [C(0x46)] + with_len(fsresp(u[1], u[2], u[3], kind))
    else:
        raise ValueError(u)
    return pre + t, pre + t


def uo_rs(u):
    return "Uo::%s%s" % (u[0], "(%s)" % ", ".join(map(str, u[1:])) if len(u) > 1 else "")


def uo_name(u):
    return u[0].lower() + ("_" + "_".join(str(x) for x in u[1:]) if len(u) > 1 else "")


# ================================================================================================
# Harness table
# ================================================================================================
FAMILIES = {}      # name -> dict(property, kind, bound, doc)
HARNESSES = []     # dicts: name, family, K, unwind, call, accept, tier
_names = set()


def family(name, prop, kind, bound, doc):
    FAMILIES[name] = dict(property=prop, kind=kind, bound=bound, doc=doc)


def rs_pins(pins):
    return "&[%s]" % ", ".join("(%d, %d)" % p for p in pins)


def rs_tpl(t):
    return "&[%s]" % ", ".join("(0x%02x, 0x%02x)" % o for o in t)


def rs_guards(g):
    return "&[%s]" % ", ".join("(%d, 0x%02x, 0x%02x, %s)" % (a, b, c, "true" if d else "false")
                                for (a, b, c, d) in g)


def rb(x):
    return "true" if x else "false"


def add(fam, name, K, call, unwind, accept=True, tier="quick"):
    assert fam in FAMILIES, fam
    full = fam + "__" + name
    assert full not in _names, full
    _names.add(full)
    tier = retier(fam, name, tier)
    HARNESSES.append(dict(name=full, family=fam, K=max(K, 1), unwind=unwind, call=call,
                          accept=accept, tier=tier))


QUICK_RULES = {
    # family: regexes (fullmatch on the harness's short name) that stay in the quick tier.  The quick
    # tier is sized for ~8 min wall per property on 16 cores at the measured ~60 s of CPU per harness
    # under load (see README); everything else the generator enumerates is thorough.
    "c05_fixed": [r".*"],
    "c05_header": [r"e(\d)_s\1_c0_m0", r"e1_s8_c1_m1", r"e8_s1_c1_m1", r"e2_s4_c1_m0", r"e4_s2_c0_m1"],
    "c05_var": [r"(flow|msg)[012]", r"fsreq(00|12|21|22)", r"fsresp(000|102|021|222)", r"unseg[012]_[sl]",
                r"seg1_1_s[0123]_s", r"seg(0_1|2_1|1_0|2_2)_s3_[sl]"],
    "c05_userops": [r"(origtx|respstatus|respresume|respsuspend|reqsuspend|reqresume)_(1_1|2_2|4_4|8_8|1_8|8_1)",
                    r"reqstatus_(1_1|2_2|4_4|8_8|1_8|8_1)_\d", r"proxyput_.*", r"respproxyput",
                    r"(resp|req)dirlist_(0_0|1_2|2_2)", r"dec_proxysegctrl"],
    "c05_report": [r"e(\d)_s\1", r"e1_s8", r"e8_s1"],
    "c05_wrap": [r"tlv_eid\d"],
    "c06_arith": [r".*"],
    "c06_types": [r"uo_(origtx|respstatus|respresume|respsuspend|reqsuspend|reqresume)_(1_1|8_8|2_4)",
                  r"uo_reqstatus_.*", r"uo_proxyput_(1_1_2|8_1_2|1_0_0)", r"uo_proxysegctrl", r"uo_respproxyput",
                  r"uo_(resp|req)dirlist_(0_0|1_2)", r"uo_origtx_badwidth_3_1", r"uo_respresume_badwidth_1_5",
                  r"uo_proxyput_badwidth_[09]", r"uo_reqdirlist_overlong", r"uo_sfore(port|quest)_badwidth",
                  r"fsreq_(00|12|22|overlong)", r"fsresp_(000|102|222|overlong)", r"(flow|msg)_[012]", r"varid_w\d",
                  r"varid_badwidth_(02|08|fe)", r"report_e(\d)_s\1", r"report_badwidth", r"hdr_e(\d)_s\1_c0_m0",
                  r"free_(flow|msg)"],
    "c06_canon_eof": [r"noerr(_trail2)?_[sl]", r"err_w\d_s", r"err_w8_l", r"err_w2_trail1_s"],
    "c06_bytes_eof": [r"err_tlvtype_0[13]_s", r"err_badwidth_(02|ff)_s", r"err_badwidth_ff_l", r"trunc_err_w8_s"],
    "c06_canon_small": [r".*"],
    "c06_canon_nak": [r"n[012]_s", r"n1_l"],
    "c06_bytes_nak": [r"trunc_n1_s"],
    "c06_canon_filedata": [r"unseg[012]_s", r"unseg1_l", r"seg1_1_s[0123]_s", r"seg2_0_s1_s", r"seg0_2_s1_l"],
    "c06_bytes_filedata": [r"trunc_(unseg2|seg2_1)_s"],
    "c06_dispatch": [r"pdu_crc_lenfield_[01]"],
}


def retier(fam, name, tier):
    """Quick tier = whitelist above; codecs that iterate over a Vec of structs / enums (Finished
    with responses, MetadataPDU) and the enum dispatch layers cost minutes per shape under Kani and
    are thorough-tier only (measured, see README)."""
    import re as _re
    if tier != "quick":
        return tier
    for rx in QUICK_RULES.get(fam, []):
        if _re.fullmatch(rx, name):
            return "quick"
    return "thorough"


def unwind_for(n, npins=0):
    return max(10, n + 2, npins + 2)


def add_rt(fam, name, ty, ctx, shape, canon, tier="quick", slack=1):
    """constructive round trip: checks::c05_rt::<ty>(ctx, shape, PINS, n, b)"""
    n = len(canon)
    pins = pins_of(canon)
    call = "checks::c05_rt::<%s>(%s, %s, %s, %d, b)" % (ty, ctx, shape, rs_pins(pins), n)
    add(fam, name, n + slack, call, unwind_for(n, len(pins)), True, tier)


def add_dec(fam, name, ty, ctx, wire, canon=None, guards=(), lax=False, accept=None, tier="quick"):
    """template-driven decode check: checks::c06_decode::<ty>(ctx, TPL, GUARDS, canon, lax, b)"""
    K = len(wire)
    assert K <= 64, (name, K)
    if canon is None:
        c = "None"
        npins = 0
    else:
        pins = pins_of(canon)
        npins = len(pins)
        c = "Some((%d, %s))" % (len(canon), rs_pins(pins))
    call = "checks::c06_decode::<%s>(%s, %s, %s, %s, %s, b)" % (
        ty, ctx, rs_tpl(wire), rs_guards(guards), c, rb(lax))
    if accept is None:
        accept = canon is not None
    add(fam, name, K, call, unwind_for(K, npins), accept, tier)


def add_trunc(fam, name, ty, ctx, wire, accept=True, tier="quick"):
    K = len(wire)
    assert K <= 64
    call = "checks::c06_trunc::<%s>(%s, %s, b)" % (ty, ctx, rs_tpl(wire))
    add(fam, name, K, call, unwind_for(K), accept, tier)


def add_free(fam, name, ty, ctx, n, trunc=True, accept=True, tier="quick", unwind=10):
    K = n + (1 if trunc else 0)
    call = "checks::c06_free::<%s>(%s, %d, %s, b)" % (ty, ctx, n, rb(trunc))
    add(fam, name, K, call, unwind, accept, tier)


L_Q = (0, 1, 2)
FSS = ("Small", "Large")


def fs(fss):
    return "Fss::" + fss


def fl(fss):
    return fss[0].lower()


def opt(w):
    return "None" if w is None else "Some(%d)" % w


def leaf(fss, p):
    """(rust type, ctx, shape, canonical template) of the leaf struct behind payload shape p"""
    k = p[0]
    body = payload(fss, p, A)[1]
    if k == "Eof":
        return "EndOfFile", fs(fss), opt(p[1]), body[1:]
    if k == "Fin":
        return "Finished", "()", "(&[%s], %s, %s)" % (
            ", ".join("(%d, %d, %d)" % r for r in p[1]), rb(p[2]), opt(p[3])), body[1:]
    if k == "Ack":
        return "PositiveAcknowledgePDU", "()", "()", body[1:]
    if k == "Meta":
        return "MetadataPDU", fs(fss), "(%d, %d, &[%s])" % (
            p[1], p[2], ", ".join(tlv_rs(o) for o in p[3])), body[1:]
    if k == "Nak":
        return "NegativeAcknowledgmentPDU", fs(fss), "%d" % p[1], body[1:]
    if k == "Prompt":
        return "PromptPDU", "()", "()", body[1:]
    if k == "KeepAlive":
        return "KeepAlivePDU", fs(fss), "()", body[1:]
    if k == "Unseg":
        return "UnsegmentedFileData", fs(fss), "%d" % p[1], body
    if k == "Seg":
        return "SegmentedFileData", fs(fss), "(%d, %d, %d)" % (p[1], p[2], p[3]), body
    raise ValueError(p)


def add_leaf_rt(fam, fss, p, tier="quick", suffix=True):
    ty, ctx, shape, canon = leaf(fss, p)
    if len(canon) > 320:
        return
    add_rt(fam, pl_name(p) + ("_" + fl(fss) if suffix else ""), ty, ctx, shape, canon, tier)


# leaf struct of a user operation kind: (type, shape)
UO_LEAF = {
    "OrigTx": "OriginatingTransactionIDMessage", "RespStatus": "RemoteStatusReportResponse",
    "RespResume": "RemoteResumeResponse", "RespSuspend": "RemoteSuspendResponse",
    "ReqSuspend": "RemoteSuspendRequest", "ReqResume": "RemoteResumeRequest",
    "ReqStatus": "RemoteStatusReportRequest", "ProxyPut": "ProxyPutRequest",
    "RespProxyPut": "ProxyPutResponse", "RespDirList": "DirectoryListingResponse",
    "ReqDirList": "DirectoryListingRequest", "ProxySegCtrl": "ProxySegmentationControl",
    "SfoRequest": "SFORequest", "SfoReport": "SFOReport",
}


def uo_shape(u):
    if len(u) == 1:
        return "()"
    if len(u) == 2:
        return "%d" % u[1]
    return "(%s)" % ", ".join(str(x) for x in u[1:])


# ---------------------------------------------------------------------------------------------- C05
def gen_c05():
    family("c05_fixed", "C05", "complete", "",
           "fixed-layout leaf codecs: VariableID, TransmissionMode, FaultHandlerOverride, "
           "SegmentRequestForm, EndOfFile, PositiveAcknowledgePDU, PromptPDU, KeepAlivePDU, "
           "NegativeAcknowledgmentPDU (0..2 requests; 3,4 thorough). One harness per width / flag "
           "shape; all value fields symbolic, full width")
    F = "c05_fixed"
    for w in WIDTHS:
        add_rt(F, "varid_w%d" % w, "VariableID", "()", "%d" % w, varid_enc(w))
    add_rt(F, "tmode", "TransmissionMode", "()", "()", [S])
    add_rt(F, "fho", "FaultHandlerOverride", "()", "()", [S])
    for fss in FSS:
        add_rt(F, "segreq_" + fl(fss), "SegmentRequestForm", fs(fss), "()", [S] * (2 * fsz(fss)))
        for p in [("Eof", None)] + [("Eof", w) for w in WIDTHS] + [("KeepAlive",)] \
                + [("Nak", n) for n in (0, 1, 2)]:
            add_leaf_rt(F, fss, p)
        for n in (3, 4):
            add_leaf_rt(F, fss, ("Nak", n), "thorough")
    for p in (("Ack",), ("Prompt",)):
        add_leaf_rt(F, "Small", p, suffix=False)

    family("c05_header", "C05", "complete", "",
           "PDUHeader for every (entity width, sequence width, segmentation control, segment "
           "metadata flag); version, type, direction, mode, CRC flag, file-size flag, the 16-bit "
           "length and all identifier values symbolic")
    for we in WIDTHS:
        for ws in WIDTHS:
            for segctl in (0, 1):
                for seg in (0, 1):
                    t = header(we, ws, 0, False, "Small", False, seg, segctl)
                    t[0] = S
                    t[1] = S
                    t[2] = S
                    tier = "quick" if (segctl, seg) in ((0, 0), (1, 1)) or we == ws else "thorough"
                    add_rt("c05_header", "e%d_s%d_c%d_m%d" % (we, ws, segctl, seg), "PDUHeader",
                           "()", "(%d, %d, %s, %s)" % (we, ws, rb(segctl), rb(seg)), t, tier, 0)

    family("c05_var", "C05", "bounded",
           "string / body / list lengths in {0,1,2} (quick), plus 3, 255-octet bodies and "
           "63-octet segment metadata (thorough); file names ASCII",
           "variable-length leaf codecs: FlowLabel, MessageToUser, FileStoreRequest, "
           "FileStoreResponse, Finished, MetadataPDU, UnsegmentedFileData, SegmentedFileData")
    V = "c05_var"
    for n in (0, 1, 2, 3, 255):
        tier = "quick" if n in L_Q else "thorough"
        add_rt(V, "flow%d" % n, "FlowLabel", "()", "%d" % n, lv(n), tier)
        add_rt(V, "msg%d" % n, "MessageToUser", "()", "%d" % n, lv(n), tier)
    for l1 in (0, 1, 2, 3):
        for l2 in (0, 1, 2, 3):
            tier = "quick" if l1 in L_Q and l2 in L_Q else "thorough"
            add_rt(V, "fsreq%d%d" % (l1, l2), "FileStoreRequest", "()", "(%d, %d)" % (l1, l2),
                   fsreq(l1, l2), tier)
            for lm in (0, 1, 2, 3):
                tier2 = "quick" if tier == "quick" and lm in L_Q else "thorough"
                if 3 in (l1, l2, lm) and not (l1 == l2 == lm or (l1, l2, lm) in ((3, 0, 1), (0, 3, 2), (1, 2, 3))):
                    continue
                add_rt(V, "fsresp%d%d%d" % (l1, l2, lm), "FileStoreResponse", "()",
                       "(%d, %d, %d)" % (l1, l2, lm), fsresp(l1, l2, lm), tier2)
    add_rt(V, "fsreq_255_0", "FileStoreRequest", "()", "(255, 0)", fsreq(255, 0), "thorough")
    add_rt(V, "fsresp_0_0_255", "FileStoreResponse", "()", "(0, 0, 255)", fsresp(0, 0, 255), "thorough")
    rlists_q = [(), ((1, 0, 2),), ((0, 2, 1),), ((2, 2, 2),), ((1, 1, 0), (0, 1, 1)),
                ((2, 0, 1), (1, 2, 0))]
    rlists_t = [((3, 3, 3),), ((0, 0, 0), (1, 1, 1), (2, 2, 2)), ((3, 0, 1), (0, 3, 0), (1, 0, 3))]
    conds = [(False, None), (True, None)] + [(True, w) for w in WIDTHS]
    for rl in rlists_q + rlists_t:
        for (err, fw) in conds:
            p = ("Fin", rl, err, fw)
            if len(leaf("Small", p)[3]) > 64:
                continue
            tier = "quick" if rl in rlists_q and (fw in (None, 2) or len(rl) <= 1) else "thorough"
            add_leaf_rt(V, "Small", p, tier, suffix=False)
    opts_q = [(), (("Msg", 1),), (("Fho",),), (("Flow", 2),), (("Eid", 4),), (("FsReq", 1, 1),),
              (("FsResp", 1, 0, 1),), (("Msg", 2), ("Fho",)), (("Flow", 1), ("Eid", 2))]
    opts_t = [(("Msg", 0), ("Flow", 0), ("Eid", 1)), (("FsReq", 2, 0), ("FsResp", 0, 2, 2)),
              (("Eid", 8), ("Msg", 3), ("Fho",)), (("Fho",), ("Fho",), ("Fho",))]
    for fss in FSS:
        for (ls, ld) in ((1, 2), (0, 0), (2, 1), (2, 2), (3, 3), (0, 3)):
            for o in opts_q + opts_t:
                if (ls, ld) != (1, 2) and o != ():
                    continue
                tier = "quick" if o in opts_q and 3 not in (ls, ld) else "thorough"
                add_leaf_rt(V, fss, ("Meta", ls, ld, o), tier)
        for n in (0, 1, 2, 3):
            add_leaf_rt(V, fss, ("Unseg", n), "quick" if n in L_Q else "thorough")
        for r in (0, 1, 2, 3):
            for (m, n) in ((0, 1), (1, 1), (2, 1), (1, 0), (2, 2), (3, 3), (63, 1)):
                if (m, n) in ((1, 0), (2, 2)) and r != 3:
                    continue
                if m == 63 and r != 1:
                    continue
                add_leaf_rt(V, fss, ("Seg", m, n, r), "quick" if max(m, n) <= 2 else "thorough")

    family("c05_userops", "C05", "bounded",
           "every identifier width combination (complete for the identifier-only kinds); string / "
           "body lengths in {0,1,2}; SFORequest / SFOReport / ProxySegmentationControl have "
           "private fields and are proved from the decoder side only (decode(b) = Ok(x) implies "
           "encode(x) has length encoded_len(x) and decodes to x)",
           "leaf codecs of the reserved CFDP user operations (the body after the message-type "
           "octet); the kinds whose body is a MessageToUser / FlowLabel / FaultHandlerOverride / "
           "TransmissionMode / FileStoreRequest / FileStoreResponse reuse the c05_fixed / c05_var "
           "proofs, their framing is in c05_wrap")
    U = "c05_userops"
    for k in ("OrigTx", "RespStatus", "RespResume", "RespSuspend", "ReqSuspend", "ReqResume"):
        for we in WIDTHS:
            for ws in WIDTHS:
                u = (k, we, ws)
                add_rt(U, uo_name(u), UO_LEAF[k], "()", uo_shape(u), userop(u)[1][5:])
    for we in WIDTHS:
        for ws in WIDTHS:
            for l in ((1,) if (we, ws) != (1, 1) else (0, 1, 2)):
                u = ("ReqStatus", we, ws, l)
                add_rt(U, uo_name(u), UO_LEAF[u[0]], "()", uo_shape(u), userop(u, A)[1][5:])
    for w in WIDTHS:
        for (l1, l2) in (((1, 2),) if w != 2 else ((1, 2), (0, 0), (2, 1), (2, 2))):
            u = ("ProxyPut", w, l1, l2)
            add_rt(U, uo_name(u), UO_LEAF[u[0]], "()", uo_shape(u), userop(u, A)[1][5:])
    u = ("RespProxyPut",)
    add_rt(U, uo_name(u), UO_LEAF[u[0]], "()", "()", userop(u)[1][5:])
    for k in ("RespDirList", "ReqDirList"):
        for (l1, l2) in ((0, 0), (1, 2), (2, 1), (2, 2), (0, 1)):
            u = (k, l1, l2)
            add_rt(U, uo_name(u), UO_LEAF[k], "()", uo_shape(u), userop(u, A)[1][5:])
    # decoder-side (private fields)
    u = ("ProxySegCtrl",)
    t = userop(u)[1][5:]
    add_dec(U, "dec_" + uo_name(u), UO_LEAF[u[0]], "()", t, t)
    for sh in ((0, 1, 1, 1), (2, 2, 2, 2), (1, 4, 4, 4), (0, 8, 8, 8), (1, 1, 2, 4), (2, 8, 4, 2),
               (1, 2, 8, 1)):
        u = ("SfoReport",) + sh
        t = userop(u)[1][5:]
        add_dec(U, "dec_" + uo_name(u), UO_LEAF[u[0]], "()", t, t)
    for sh in ((0, 1, 1, 0, 0), (1, 2, 4, 1, 1), (2, 8, 8, 1, 0), (0, 4, 2, 0, 1), (1, 4, 8, 1, 1),
               (1, 1, 2, 1, 1)):
        u = ("SfoRequest",) + sh
        t = userop(u, A)[1][5:]
        add_dec(U, "dec_" + uo_name(u), UO_LEAF[u[0]], "()", t, t)

    family("c05_report", "C05", "complete", "",
           "daemon::Report for every identifier width pair; state, status, condition symbolic")
    for we in WIDTHS:
        for ws in WIDTHS:
            add_rt("c05_report", "e%d_s%d" % (we, ws), "Report", "()", "(%d, %d)" % (we, ws),
                   varid_enc(we) + varid_enc(ws) + [S, S, S])

    family("c05_wrap", "C05", "bounded",
           "one or two small shapes per enum variant (names give the shape); identifier widths "
           "rotated",
           "the enum dispatch layers around the leaf codecs -- MetadataTLV (type octet), Operations "
           "(directive code), FileDataPDU, UserOperation ('cfdp' + message type + optional length "
           "octet), PDUPayload, PDU (header ++ payload ++ CRC) -- round trip through the layer's "
           "own encode / encoded_len / decode.  Expensive under Kani (enum payloads are moved by "
           "value inside cfdp-core, which defeats CBMC's constant propagation), hence few shapes")
    W = "c05_wrap"
    for t in (("FsReq", 0, 0), ("FsReq", 1, 1), ("FsResp", 0, 0, 0), ("FsResp", 1, 0, 1), ("Msg", 0),
              ("Msg", 2), ("Fho",), ("Flow", 0), ("Flow", 2), ("Eid", 1), ("Eid", 2), ("Eid", 4),
              ("Eid", 8)):
        add_rt(W, "tlv_" + tlv_name(t), "MetadataTLV", "()", tlv_rs(t), tlv(t, A),
               "quick" if t[0] in ("Fho", "Eid") or t in (("Msg", 0), ("Flow", 0)) else "thorough")
    for p in (("Eof", None), ("Eof", 2), ("Fin", (), False, None), ("Fin", ((0, 0, 0),), True, 1),
              ("Ack",), ("Meta", 0, 0, ()), ("Meta", 1, 1, (("Fho",),)), ("Nak", 0), ("Nak", 1),
              ("Prompt",), ("KeepAlive",)):
        for fss in FSS:
            if fss == "Large" and p[0] in ("Fin", "Ack", "Prompt", "Meta"):
                continue
            add_rt(W, "ops_" + pl_name(p) + "_" + fl(fss), "Operations", fs(fss), pl_rs(p),
                   payload(fss, p, A)[1],
                   "quick" if p[0] in ("Ack", "Prompt", "KeepAlive") or p == ("Eof", None) else "thorough")
    for p in (("Unseg", 0), ("Unseg", 1), ("Seg", 0, 0, 1), ("Seg", 1, 1, 2)):
        add_rt(W, "fd_" + pl_name(p) + "_s", "FileDataPDU", "(Fss::Small, %s)" % rb(p[0] == "Seg"),
               pl_rs(p), payload("Small", p)[1], "thorough")
        add_rt(W, "payload_" + pl_name(p) + "_s", "PDUPayload",
               "(true, Fss::Small, %s)" % rb(p[0] == "Seg"), pl_rs(p), payload("Small", p)[1], "thorough")
    for p in (("Ack",), ("KeepAlive",)):
        add_rt(W, "payload_" + pl_name(p) + "_s", "PDUPayload", "(false, Fss::Small, false)",
               pl_rs(p), payload("Small", p)[1], "thorough")
    uos = [("OrigTx", 1, 2), ("OrigTx", 8, 8), ("ProxyPut", 2, 0, 1), ("ProxyMsg", 0), ("ProxyMsg", 1),
           ("ProxyFsReq", 0, 0), ("ProxyFsReq", 1, 0), ("ProxyFho",), ("ProxyTm",), ("ProxyFlow", 0),
           ("ProxyFlow", 1), ("ProxyPutCancel",), ("RespProxyPut",), ("RespFs", 0, 0, 0),
           ("RespFs", 0, 1, 1), ("RespDirList", 0, 0), ("RespDirList", 1, 0), ("RespStatus", 2, 4),
           ("RespStatus", 8, 1), ("RespResume", 4, 2), ("RespResume", 1, 8), ("RespSuspend", 1, 1),
           ("RespSuspend", 8, 8), ("ReqDirList", 0, 0), ("ReqDirList", 0, 1), ("ReqStatus", 2, 2, 0),
           ("ReqStatus", 8, 8, 1), ("ReqSuspend", 4, 1), ("ReqSuspend", 2, 8), ("ReqResume", 1, 4),
           ("ReqResume", 8, 2), ("SfoMsg", 0), ("SfoMsg", 1), ("SfoFlow", 0), ("SfoFlow", 1), ("SfoFho",),
           ("SfoFsReq", 0, 0), ("SfoFsReq", 0, 1), ("SfoFsResp", 0, 0, 0), ("SfoFsResp", 1, 0, 1)]
    scalar = ("OrigTx", "ProxyFho", "ProxyTm", "ProxyPutCancel", "RespProxyPut", "RespStatus",
              "RespResume", "RespSuspend", "ReqSuspend", "ReqResume", "SfoFho")
    for u in uos:
        add_rt(W, "uo_" + uo_name(u), "UserOperation", "()", uo_rs(u), userop(u, A)[1],
               "quick" if u[0] in scalar and u[1:] in ((), (1, 2), (2, 4), (4, 2), (1, 1), (4, 1), (1, 4))
               else "thorough")
    for (u, ww) in ((("ProxySegCtrl",), None), (("SfoReport", 0, 1, 1, 1), None),
                    (("SfoRequest", 0, 1, 1, 0, 0), None)):
        t = userop(u, A)[1]
        add_dec(W, "uo_dec_" + uo_name(u), "UserOperation", "()", t, t, tier="thorough")
    # whole PDU
    kinds = [("Ack",), ("KeepAlive",), ("Eof", None), ("Prompt",), ("Unseg", 1)]
    wcombos = [(1, 1), (2, 4), (4, 2), (8, 8)]
    i = 0
    for p in kinds:
        for crc in (0, 1):
            for fss in FSS:
                if fss == "Large" and p[0] in ("Ack", "Prompt"):
                    continue
                we, ws = wcombos[i % 4]
                pc = payload(fss, p, A)[1]
                segctl = i & 1
                h = header(we, ws, len(pc), crc, fss, pl_is_filedata(p), p[0] == "Seg", segctl,
                           first_free=True)
                canon = h + pc + ([S, S] if crc else [])
                add_rt(W, "pdu_%s_%s_crc%d_e%d_s%d" % (pl_name(p), fl(fss), crc, we, ws), "PDU", "()",
                       "(%d, %d, %s, %s, %s, %s)" % (we, ws, rb(crc), rb(segctl), rb(fss == "Large"),
                                                     pl_rs(p)), canon, "thorough")
                i += 1


# ---------------------------------------------------------------------------------------------- C06
def dgram(fss, pw, pc, crc=False, filedata=False, seg=False, we=1, ws=1):
    """(wire, canon) of a whole datagram from payload templates (pc None: expected malformed)."""
    tail = [S, S] if crc else []
    w = header(we, ws, len(pw), crc, fss, filedata, seg) + pw + tail
    c = None if pc is None else header(we, ws, len(pc), crc, fss, filedata, seg) + pc + tail
    return w, c


HL = 7   # header length with 1-octet identifiers


def gen_c06():
    family("c06_arith", "C06", "complete", "",
           "all-octets-free no-panic proofs of the leaf decoders whose arithmetic depends on an "
           "input octet: PDUHeader::decode over 28 free octets (all 2^16 length values x CRC flag x "
           "every first/fourth octet x every identifier), VariableID::decode and "
           "read_length_value_pair over a free length octet + 256 free octets, "
           "SegmentedFileData::decode over a free first octet + 63 + 8 + 1 octets, "
           "UnsegmentedFileData, SegmentRequestForm, TransmissionMode, FaultHandlerOverride, "
           "PositiveAcknowledgePDU, PromptPDU, KeepAlivePDU over all octets; each also for every "
           "truncation (symbolic cut)")
    R = "c06_arith"
    # 28 free octets = longest header; the symbolic-cut variant of this one needs > 12 GB, so the
    # truncations are a separate (thorough) sweep over concrete cuts
    add_free(R, "hdr_all", "PDUHeader", "()", 28, trunc=False)
    add_trunc(R, "hdr_trunc", "PDUHeader", "()", [S] * 28, tier="thorough")
    add_free(R, "varid_all", "VariableID", "()", 257)
    add_free(R, "lv_all", "checks::Lv", "()", 256)
    add_free(R, "tmode_all", "TransmissionMode", "()", 1)
    add_free(R, "fho_all", "FaultHandlerOverride", "()", 1)
    add_free(R, "ack_all", "PositiveAcknowledgePDU", "()", 2)
    add_free(R, "prompt_all", "PromptPDU", "()", 1)
    for fss in FSS:
        f = fsz(fss)
        add_free(R, "segdata_first_" + fl(fss), "SegmentedFileData", fs(fss), 1 + 63 + f + 1)
        add_free(R, "unseg_" + fl(fss), "UnsegmentedFileData", fs(fss), f + 2)
        add_free(R, "segreq_" + fl(fss), "SegmentRequestForm", fs(fss), 2 * f)
        add_free(R, "keepalive_" + fl(fss), "KeepAlivePDU", fs(fss), f)
        add_free(R, "nak_" + fl(fss), "NegativeAcknowledgmentPDU", fs(fss), 4 * f + 1, unwind=8)
        add_free(R, "eof_noerr_" + fl(fss), "EndOfFile", fs(fss), 5 + f + 2, trunc=True)

    # ---- per-type leaf decoders -----------------------------------------------------------------
    family("c06_types", "C06", "bounded",
           "type / length octets enumerated (string and body lengths in {0,1,2}, identifier "
           "widths 1,2,4,8), all value octets free (file names NOT restricted to ASCII); plus "
           "all-free inputs of 4..8 octets for the shallow decoders",
           "public per-type leaf decoders: every user-operation body, FileStoreRequest, "
           "FileStoreResponse, FaultHandlerOverride, FlowLabel, MessageToUser, VariableID, Report, "
           "PDUHeader: never panic, and what they accept is canonical (re-encodes to the predicted "
           "length, encoded_len agrees, decodes back to the same value)")
    T = "c06_types"
    uos = []
    for k in ("OrigTx", "RespStatus", "RespResume", "RespSuspend", "ReqSuspend", "ReqResume"):
        uos += [(k, 1, 1), (k, 2, 4), (k, 8, 8), (k, 4, 1)]
    uos += [("ReqStatus", 1, 1, 0), ("ReqStatus", 2, 8, 2), ("ReqStatus", 4, 4, 1)]
    uos += [("ProxyPut", w, 1, 2) for w in WIDTHS] + [("ProxyPut", 1, 0, 0)]
    uos += [("ProxySegCtrl",), ("RespProxyPut",)]
    for k in ("RespDirList", "ReqDirList"):
        uos += [(k, 0, 0), (k, 1, 2), (k, 2, 1)]
    uos += [("SfoReport", 0, 1, 1, 1), ("SfoReport", 2, 2, 4, 8), ("SfoReport", 1, 8, 8, 8)]
    uos += [("SfoRequest", 0, 1, 1, 0, 0), ("SfoRequest", 1, 2, 4, 1, 1), ("SfoRequest", 2, 8, 8, 0, 1)]
    for u in uos:
        # SFORequest can only be compared with the derived (path component) equality: ASCII names
        t = userop(u, A if u[0] == "SfoRequest" else S)[1][5:]
        add_dec(T, "uo_" + uo_name(u), UO_LEAF[u[0]], "()", t, t)
    # malformed bodies
    for (we, ws) in ((3, 1), (1, 5), (7, 6)):
        add_dec(T, "uo_origtx_badwidth_%d_%d" % (we, ws), "OriginatingTransactionIDMessage", "()",
                [C(((we - 1) << 4) | (ws - 1))] + [S] * (we + ws), None)
        add_dec(T, "uo_respresume_badwidth_%d_%d" % (we, ws), "RemoteResumeResponse", "()",
                [S, C(((we - 1) << 4) | (ws - 1))] + [S] * (we + ws), None)
    for w in (0, 3, 9):
        add_dec(T, "uo_proxyput_badwidth_%d" % w, "ProxyPutRequest", "()",
                [C(w)] + [S] * w + lv(1) + lv(1), None)
    add_dec(T, "uo_reqdirlist_overlong", "DirectoryListingRequest", "()", [C(1), S, C(3), S, S], None)
    add_dec(T, "uo_sforeport_badwidth", "SFOReport", "()",
            [C(0), C(3), S, S, S, C(1), S, C(1), S, S, S, S], None)
    add_dec(T, "uo_sforequest_badwidth", "SFORequest", "()",
            [S, S, C(0), C(1), S, C(5), S, S, S, S, S, C(0), C(0)], None)
    for (a, b) in ((0, 0), (1, 2), (2, 1), (2, 2)):
        add_dec(T, "fsreq_%d%d" % (a, b), "FileStoreRequest", "()", fsreq(a, b), fsreq(a, b))
    add_dec(T, "fsreq_overlong", "FileStoreRequest", "()", [S, C(1), S, C(4), S, S], None)
    for (a, b, c) in ((0, 0, 0), (1, 0, 2), (0, 2, 1), (2, 2, 2)):
        add_dec(T, "fsresp_%d%d%d" % (a, b, c), "FileStoreResponse", "()", fsresp(a, b, c), fsresp(a, b, c))
    add_dec(T, "fsresp_overlong", "FileStoreResponse", "()", [S, C(0), C(0), C(2), S], None)
    for n in L_Q:
        add_dec(T, "flow_%d" % n, "FlowLabel", "()", lv(n), lv(n))
        add_dec(T, "msg_%d" % n, "MessageToUser", "()", lv(n), lv(n))
    for w in WIDTHS:
        add_dec(T, "varid_w%d" % w, "VariableID", "()", varid_enc(w), varid_enc(w))
    for wm1 in (2, 4, 5, 6, 8, 0xFE):
        add_dec(T, "varid_badwidth_%02x" % wm1, "VariableID", "()", [C(wm1)] + [S] * min(wm1 + 1, 12), None)
    for we in WIDTHS:
        for ws in WIDTHS:
            rep = varid_enc(we) + varid_enc(ws) + [S, S, S]
            add_dec(T, "report_e%d_s%d" % (we, ws), "Report", "()", rep, rep,
                    tier="quick" if we == ws or (we, ws) in ((1, 8), (4, 2)) else "thorough")
    add_dec(T, "report_badwidth", "Report", "()", [C(2), S, S, S, C(0), S, S, S, S], None)
    for we in WIDTHS:
        for ws in WIDTHS:
            for segctl in (0, 1):
                for seg in (0, 1):
                    h = header(we, ws, 0, False, "Small", False, seg, segctl)
                    h[0] = S
                    h[1] = S
                    h[2] = S
                    tier = "quick" if we == ws and segctl == seg else "thorough"
                    add_dec(T, "hdr_e%d_s%d_c%d_m%d" % (we, ws, segctl, seg), "PDUHeader", "()", h, h,
                            tier=tier)
    add_free(T, "free_report", "Report", "()", 8)
    add_free(T, "free_fsreq", "FileStoreRequest", "()", 4, tier="thorough")
    add_free(T, "free_fsresp", "FileStoreResponse", "()", 5, tier="thorough")
    add_free(T, "free_flow", "FlowLabel", "()", 4)
    add_free(T, "free_msg", "MessageToUser", "()", 4)
    add_free(T, "free_origtx", "OriginatingTransactionIDMessage", "()", 17)
    add_free(T, "free_respsuspend", "RemoteSuspendResponse", "()", 18)

    # ---- directive / file-data classes at leaf level ----------------------------------------------
    doc_c = ("leaf decoder of the class (EndOfFile::decode, Finished::decode, ... exactly what "
             "Operations::decode / FileDataPDU::decode call after the directive code, on exactly the "
             "pdu_data_field_length octets PDU::decode slices off): well-formed layouts, with and "
             "without ignored trailing octets; everything accepted re-encodes to the predicted "
             "canonical length and decodes back to the same value")
    doc_b = ("same decoders never panic / loop on malformed layouts: every truncation of the "
             "longest layouts, unknown / unexpected TLV codes, inner lengths exceeding outer ones, "
             "bad identifier widths")
    bound = ("TLV type and length octets enumerated; string / body / list lengths in {0,1,2}; all "
             "other octets free")
    classes = ("eof", "finished", "metadata", "nak", "filedata", "small")
    for c in classes:
        family("c06_canon_" + c, "C06", "bounded", bound, doc_c)
        family("c06_bytes_" + c, "C06", "bounded", bound, doc_b)

    for fss in FSS:
        f = fsz(fss)
        x = "_" + fl(fss)
        # EOF (octet 0 = condition nibble | spare)
        base = [S] + [S] * 4 + [S] * f
        E = ("EndOfFile", fs(fss))
        add_dec("c06_canon_eof", "noerr" + x, *E, base, base, [(0, 0xF0, 0x00, True)])
        add_dec("c06_canon_eof", "noerr_trail2" + x, *E, base + [S, S], base, [(0, 0xF0, 0x00, True)])
        for w in WIDTHS:
            t = base + [C(0x06)] + varid_enc(w)
            add_dec("c06_canon_eof", "err_w%d" % w + x, *E, t, t, [(0, 0xF0, 0x00, False)])
        t = base + [C(0x06)] + varid_enc(2) + [S]
        add_dec("c06_canon_eof", "err_w2_trail1" + x, *E, t, t[:-1], [(0, 0xF0, 0x00, False)])
        for code in (0x00, 0x01, 0x05, 0x03, 0xFF):
            add_dec("c06_bytes_eof", "err_tlvtype_%02x" % code + x, *E, base + [C(code), C(0), S], None,
                    [(0, 0xF0, 0x00, False)], tier="quick" if fss == "Small" else "thorough")
        for wm1 in (2, 4, 0xFF):
            add_dec("c06_bytes_eof", "err_badwidth_%02x" % wm1 + x, *E,
                    base + [C(0x06), C(wm1)] + [S] * 9, None, [(0, 0xF0, 0x00, False)])
        add_trunc("c06_bytes_eof", "trunc_err_w8" + x, *E, base + [C(0x06)] + varid_enc(8))

        # small fixed classes
        if fss == "Small":
            add_dec("c06_canon_small", "ack", "PositiveAcknowledgePDU", "()", [S, S], [S, S])
            add_dec("c06_canon_small", "ack_trail2", "PositiveAcknowledgePDU", "()", [S, S, S, S], [S, S])
            add_dec("c06_canon_small", "prompt", "PromptPDU", "()", [S], [S])
            add_dec("c06_canon_small", "prompt_trail1", "PromptPDU", "()", [S, S], [S])
        ka = [S] * f
        add_dec("c06_canon_small", "keepalive" + x, "KeepAlivePDU", fs(fss), ka, ka)
        add_dec("c06_canon_small", "keepalive_trail2" + x, "KeepAlivePDU", fs(fss), ka + [S, S], ka)

        # NAK
        N = ("NegativeAcknowledgmentPDU", fs(fss))
        for n in (0, 1, 2, 3):
            t = payload(fss, ("Nak", n))[0][1:]
            if len(t) <= 64:
                add_dec("c06_canon_nak", "n%d" % n + x, *N, t, t, tier="quick" if n < 3 else "thorough")
        add_trunc("c06_bytes_nak", "trunc_n1" + x, *N, payload(fss, ("Nak", 1))[0][1:])
        if fss == "Small":
            add_trunc("c06_bytes_nak", "trunc_n2" + x, *N, payload(fss, ("Nak", 2))[0][1:], tier="thorough")

        # file data
        for n in (0, 1, 2, 6):
            t = [S] * (f + n)
            add_dec("c06_canon_filedata", "unseg%d" % n + x, "UnsegmentedFileData", fs(fss), t, t,
                    tier="quick" if n < 6 else "thorough")
        add_trunc("c06_bytes_filedata", "trunc_unseg2" + x, "UnsegmentedFileData", fs(fss), [S] * (f + 2))
        for r in (0, 1, 2, 3):
            for (m, n) in ((0, 0), (1, 1), (2, 0), (0, 2), (2, 2), (6, 6)):
                if (m, n) != (1, 1) and r != 1:
                    continue
                t = payload(fss, ("Seg", m, n, r))[0]
                add_dec("c06_canon_filedata", "seg%d_%d_s%d" % (m, n, r) + x, "SegmentedFileData",
                        fs(fss), t, t, tier="quick" if max(m, n) < 6 else "thorough")
        add_trunc("c06_bytes_filedata", "trunc_seg2_1" + x, "SegmentedFileData", fs(fss),
                  payload(fss, ("Seg", 2, 1, 2))[0])

        # Metadata
        M = ("MetadataPDU", fs(fss))

        def meta(ls, ld, opts):
            return payload(fss, ("Meta", ls, ld, opts))[0][1:]
        mshapes = [(0, 0, ()), (1, 2, ()), (2, 1, (("Msg", 1),)), (1, 1, (("Fho",),)),
                   (1, 0, (("Flow", 2),)), (0, 1, (("Eid", 4),)), (1, 1, (("FsReq", 1, 1),)),
                   (1, 1, (("FsResp", 1, 0, 1),)), (1, 1, (("Msg", 2), ("Fho",))),
                   (0, 0, (("Flow", 1), ("Eid", 2), ("Msg", 0)))]
        for (ls, ld, o) in mshapes:
            if fss == "Large" and len(o) > 1:
                continue
            t = meta(ls, ld, o)
            add_dec("c06_canon_metadata", pl_name(("Meta", ls, ld, o)) + x, *M, t, t)
        m0 = meta(1, 1, ())
        for code in (0x03, 0x07, 0xFF):
            add_dec("c06_bytes_metadata", "tlvtype_%02x" % code + x, *M, m0 + [C(code), S], None,
                    tier="quick" if fss == "Small" else "thorough")
        add_dec("c06_bytes_metadata", "eid_badwidth" + x, *M, m0 + [C(0x06), C(2), S, S, S], None)
        add_dec("c06_bytes_metadata", "name_overlong" + x, *M,
                [S] + [S] * f + [C(1), S, C(9), S, S], None)
        add_dec("c06_bytes_metadata", "msg_overlong" + x, *M, m0 + [C(0x02), C(3), S], None)
        add_trunc("c06_bytes_metadata", "trunc_1_1_msg1_fho" + x, *M, meta(1, 1, (("Msg", 1), ("Fho",))))
        add_trunc("c06_bytes_metadata", "trunc_2_0_fsreq11" + x, *M, meta(2, 0, (("FsReq", 1, 1),)),
                  tier="thorough")

    # Finished (no file-size dependence)
    def resp(l1, l2, lm, extra=0):
        body = fsresp(l1, l2, lm)
        return ([C(0x01), C(len(body) + extra)] + body + [S] * extra,
                [C(0x01), C(len(body))] + body)

    def eid(w):
        return ([C(0x06)] + varid_enc(w),) * 2
    FN = ("Finished", "()")
    fin = [S]
    shapes = {
        "empty": [],
        "r102": [resp(1, 0, 2)],
        "r021": [resp(0, 2, 1)],
        "r222": [resp(2, 2, 2)],
        "r000_x2": [resp(0, 0, 0, 2)],
        "r110_r011": [resp(1, 1, 0), resp(0, 1, 1)],
        "r000_r000_r000": [resp(0, 0, 0)] * 3,
    }
    for nm, items in shapes.items():
        w = fin + [o for it in items for o in it[0]]
        c = fin + [o for it in items for o in it[1]]
        add_dec("c06_canon_finished", nm, *FN, w, c)
        for wd in WIDTHS:
            if nm not in ("empty", "r102") and wd not in (2,):
                continue
            e = eid(wd)
            add_dec("c06_canon_finished", nm + "_w%d" % wd, *FN, w + e[0], c + e[1],
                    [(0, 0xF0, 0x00, False)])
    r = resp(1, 0, 1)
    # fault location first / twice: accepted; the canonical form has it last / once
    add_dec("c06_canon_finished", "w2_then_r101", *FN, fin + eid(2)[0] + r[0], fin + r[1] + eid(2)[1],
            [(0, 0xF0, 0x00, False)])
    add_dec("c06_canon_finished", "w1_w4", *FN, fin + eid(1)[0] + eid(4)[0], fin + eid(4)[1],
            [(0, 0xF0, 0x00, False)])
    add_dec("c06_bytes_finished", "noerr_with_eid", *FN, fin + eid(2)[0], None, [(0, 0xF0, 0x00, True)])
    for code in (0x00, 0x02, 0x04, 0x05, 0x03, 0x07, 0xFF):
        add_dec("c06_bytes_finished", "tlvtype_%02x" % code, *FN, fin + [C(code), C(1), S], None)
    add_dec("c06_bytes_finished", "resp_outer_short", *FN, fin + [C(0x01), C(3), S, C(2), S], None)
    add_dec("c06_bytes_finished", "resp_outer_overruns", *FN, fin + [C(0x01), C(9), S, C(0), C(0), C(0)], None)
    add_dec("c06_bytes_finished", "resp_inner_overlong", *FN, fin + [C(0x01), C(4), S, C(0), C(0), C(5)], None)
    add_dec("c06_bytes_finished", "resp_len0", *FN, fin + [C(0x01), C(0)], None)
    for wm1 in (2, 6, 0xFF):
        add_dec("c06_bytes_finished", "eid_badwidth_%02x" % wm1, *FN, fin + [C(0x06), C(wm1)] + [S] * 8, None)
    add_trunc("c06_bytes_finished", "trunc_r111_w2", *FN, fin + resp(1, 1, 1)[0] + eid(2)[0])
    add_trunc("c06_bytes_finished", "trunc_r000_r200", *FN, fin + resp(0, 0, 0)[0] + resp(2, 0, 0)[0])

    # ---- dispatch layers -----------------------------------------------------------------------
    family("c06_dispatch", "C06", "bounded",
           "directive code / TLV type / message type octet enumerated (every defined value plus "
           "undefined ones), smallest body per variant; whole datagrams: 7-octet header, CRC off "
           "and on, a few classes",
           "the enum dispatch layers on top of the leaf decoders: MetadataTLV::decode, "
           "Operations::decode, FileDataPDU::decode, UserOperation::decode (incl. the ignored "
           "length octet of the four file-store kinds), PDUPayload::decode, PDU::decode "
           "(header ++ slice of pdu_data_field_length octets ++ CRC check): never panic, accepted "
           "values canonical.  Expensive (see c05_wrap)")
    D = "c06_dispatch"
    for t in (("FsReq", 0, 0), ("FsResp", 0, 0, 0), ("Msg", 1), ("Fho",), ("Flow", 1), ("Eid", 2)):
        add_dec(D, "tlv_" + tlv_name(t), "MetadataTLV", "()", tlv(t), tlv(t),
                tier="quick" if t[0] in ("Fho", "Eid") else "thorough")
    for code in (0x03, 0x07, 0xFF):
        add_dec(D, "tlv_badtype_%02x" % code, "MetadataTLV", "()", [C(code), S, S], None)
    for p in (("Eof", None), ("Fin", (), False, None), ("Ack",), ("Meta", 0, 0, ()), ("Nak", 0),
              ("Prompt",), ("KeepAlive",)):
        t = payload("Small", p)[0]
        g = [(1, 0xF0, 0x00, True)] if p[0] == "Eof" else ()
        add_dec(D, "ops_" + pl_name(p), "Operations", "Fss::Small", t, t, g,
                tier="quick" if p[0] in ("Ack", "Prompt", "KeepAlive") else "thorough")
    for code in (0x00, 0x03, 0x0A, 0x0B, 0x0D, 0xFF):
        add_dec(D, "ops_directive_%02x" % code, "Operations", "Fss::Small", [C(code), S, S], None,
                tier="quick" if code in (0x00, 0xFF) else "thorough")
    add_dec(D, "ops_empty", "Operations", "Fss::Small", [], None)
    add_dec(D, "fd_unseg1", "FileDataPDU", "(Fss::Small, false)", [S] * 5, [S] * 5, tier="thorough")
    t = payload("Small", ("Seg", 1, 1, 1))[0]
    add_dec(D, "fd_seg1_1", "FileDataPDU", "(Fss::Small, true)", t, t, tier="thorough")
    pre = [C(0x63), C(0x66), C(0x64), C(0x70)]
    uos = [("OrigTx", 1, 1), ("ProxyPut", 1, 0, 0), ("ProxyMsg", 1), ("ProxyFsReq", 0, 0), ("ProxyFho",),
           ("ProxyTm",), ("ProxyFlow", 1), ("ProxySegCtrl",), ("RespProxyPut",), ("RespFs", 0, 0, 0),
           ("ProxyPutCancel",), ("ReqDirList", 0, 0), ("RespDirList", 0, 0), ("ReqStatus", 1, 1, 0),
           ("RespStatus", 1, 1), ("ReqSuspend", 1, 1), ("RespSuspend", 1, 1), ("ReqResume", 1, 1),
           ("RespResume", 1, 1), ("SfoRequest", 0, 1, 1, 0, 0), ("SfoMsg", 1), ("SfoFlow", 1), ("SfoFho",),
           ("SfoFsReq", 0, 0), ("SfoReport", 0, 1, 1, 1), ("SfoFsResp", 0, 0, 0)]
    for u in uos:
        t = userop(u, A if u[0] == "SfoRequest" else S)[1]
        add_dec(D, "uo_" + uo_name(u), "UserOperation", "()", t, t,
                tier="quick" if u[0] in ("ProxyFho", "ProxyTm", "ProxyPutCancel", "SfoFho", "ProxySegCtrl",
                                          "RespProxyPut") else "thorough")
    for mt in (0x0B, 0x0C, 0x12, 0x47, 0xFF):
        add_dec(D, "uo_badtype_%02x" % mt, "UserOperation", "()", pre + [C(mt), S, S], None)
    add_dec(D, "uo_free_ident", "UserOperation", "()", [S] * 7, None, lax=True, accept=False)
    for (k, mt) in (("ProxyFsReq", 0x02), ("RespFs", 0x08), ("SfoFsReq", 0x44), ("SfoFsResp", 0x46)):
        body = fsreq(0, 0) if "Req" in k else fsresp(0, 0, 0)
        add_dec(D, "uo_%s_anylen" % k.lower(), "UserOperation", "()", pre + [C(mt), S] + body,
                pre + [C(mt), C(len(body))] + body, tier="thorough")
    # whole datagrams
    for (nm, p, kw) in (("ack", [C(0x06), S, S], {}), ("prompt", [C(0x09), S], {}),
                        ("keepalive", [C(0x0C)] + [S] * 4, {}),
                        ("eof_noerr", [C(0x04), C(0x00)] + [S] * 8, {}),
                        ("unseg1", [S] * 5, dict(filedata=True))):
        for crc in (False, True):
            w, c = dgram("Small", p, p, crc=crc, **kw)
            add_dec(D, "pdu_%s_crc%d" % (nm, crc), "PDU", "()", w, c, tier="thorough")
    for field in (0, 1):   # CRC flag set, length field 0 / 1  (header.rs:395)
        w = header(1, 1, 0, True, "Small", False, False)
        w[1] = C(0)
        w[2] = C(field)
        add_dec(D, "pdu_crc_lenfield_%d" % field, "PDU", "()", w + [S, S, S], None)
    w = header(1, 1, 9, False, "Small", False, False) + [C(0x06), S, S]
    add_dec(D, "pdu_short_datagram", "PDU", "()", w, None, tier="thorough")
    w, _ = dgram("Small", [C(0x06), S, S], None)
    call = "checks::c06_pdu_trunc(%s, %d, false, b)" % (rs_tpl(w), HL)
    add(D, "pdu_trunc_ack", len(w), call, unwind_for(len(w)), True, "thorough")
    for c in classes:
        for k in ("c06_canon_", "c06_bytes_"):
            if not any(h["family"] == k + c for h in HARNESSES):
                del FAMILIES[k + c]


# ================================================================================================
# Emission
# ================================================================================================
STUBS = [("core::str::from_utf8", "crate::util::from_utf8_stub")]


def emit():
    hs = []
    ds = []
    hs.append("// @generated by /verif/kani/gen.py -- do not edit\n"
              "#![allow(non_snake_case)]\n")
    for h in HARNESSES:
        stubs = "".join("#[kani::stub(%s, %s)]\n" % s for s in STUBS)
        hs.append("#[kani::proof]\n#[kani::unwind(%d)]\n%sfn %s() {\n"
                  "    let b: [u8; %d] = kani::any();\n"
                  "    let o = crate::dispatch::call_%s(&b);\n"
                  "    kani::cover!(o.is_pass(), \"check body reached its end\");\n%s}\n"
                  % (h["unwind"], stubs, h["name"], h["K"], h["name"],
                     "    kani::cover!(o.accepted(), \"a decoder accepted\");\n" if h["accept"] else ""))
    ds.append("// @generated by /verif/kani/gen.py -- do not edit\n"
              "#![allow(non_snake_case, unused_imports, clippy::all)]\n"
              "use crate::checks::{self, Fss, Pl, Tlv, Uo};\nuse crate::util::Outcome;\n"
              "use cfdp_core::daemon::Report;\nuse cfdp_core::pdu::*;\n")
    for h in HARNESSES:
        ds.append("pub fn call_%s(b: &[u8]) -> Outcome {\n    %s\n}\n" % (h["name"], h["call"]))
    ds.append("/// (harness name, number of input octets)\npub const HARNESSES: &[(&str, usize)] = &[")
    for h in HARNESSES:
        ds.append('    ("%s", %d),' % (h["name"], h["K"]))
    ds.append("];\n")
    ds.append("pub fn run(name: &str, b: &[u8]) -> Option<Outcome> {\n    Some(match name {")
    for h in HARNESSES:
        ds.append('        "%s" => call_%s(b),' % (h["name"], h["name"]))
    ds.append("        _ => return None,\n    })\n}\n")
    table = dict(families=FAMILIES, harnesses=HARNESSES, stubs=STUBS)
    outs = {"harnesses.rs": "\n".join(hs), "dispatch.rs": "\n".join(ds),
            "table.json": json.dumps(table, indent=1)}
    for fn, txt in outs.items():
        p = os.path.join(SRC, fn)
        old = open(p).read() if os.path.exists(p) else None
        if old != txt:
            with open(p, "w") as f:
                f.write(txt)
    return table


def build_table():
    if not HARNESSES:
        gen_c05()
        gen_c06()
    return dict(families=FAMILIES, harnesses=HARNESSES, stubs=STUBS)


if __name__ == "__main__":
    build_table()
    t = emit()
    by = {}
    for h in t["harnesses"]:
        k = (h["family"], h["tier"])
        by[k] = by.get(k, 0) + 1
    for f in t["families"]:
        print("%-22s %-8s quick=%-4d thorough=+%d" % (f, t["families"][f]["kind"],
                                                     by.get((f, "quick"), 0), by.get((f, "thorough"), 0)))
    print("total", len(t["harnesses"]))
