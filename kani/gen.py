#!/usr/bin/env python3
"""Generator for the C05 / C06 Kani harnesses of cfdp-core's PDU codec.

Writes  core/src/harnesses.rs  (one #[kani::proof] per concrete shape),
        core/src/dispatch.rs   (the same calls by name, for the native replay binary) and
        core/src/table.json    (family / harness table read by /verif/kani_run.py).

The wire format lives here as *layout functions*: each returns a template, a list of octets
(and, or) meaning  wire[i] = (pool[i] & and) | or .  (0, c) is the concrete octet c (type and
length octets), (0xff, 0) a free octet.  A layout returns two templates: the wire and its canonical
re-encoding (they differ when the wire carries octets the decoder ignores).  The concrete octets of
the canonical template are the "pins" the Rust checks assert on encode()'s output.
"""
import itertools
import json
import os
import sys

HERE = os.path.dirname(os.path.abspath(__file__))
SRC = os.path.join(HERE, "core", "src")

S = (0xFF, 0)          # free octet
A = (0x7F, 0)          # free ASCII octet


def C(v):
    assert 0 <= v <= 255, v
    return (0, v)


def pins_of(canon, base=0):
    return [(base + i, o) for i, (a, o) in enumerate(canon) if a == 0]


WIDTHS = (1, 2, 4, 8)


def fsz(fss):
    return 4 if fss == "Small" else 8


# ------------------------------------------------------------------------------------------------
# layouts (wire == canonical unless stated)
# ------------------------------------------------------------------------------------------------
def lv(n, kind=S):
    return [C(n)] + [kind] * n


def varid_enc(w):                       # VariableID::encode: (width-1) ++ value
    return [C(w - 1)] + [S] * w


def fsreq(l1, l2, kind=S):
    return [S] + lv(l1, kind) + lv(l2, kind)


def fsresp(l1, l2, lm, kind=S):
    return [S] + lv(l1, kind) + lv(l2, kind) + lv(lm)


def tlv(shape, kind=S):
    """Metadata TLV as cfdp-core encodes it (NB: no length octet after the type for requests,
    responses and fault handler overrides; that is the implementation's format)."""
    k = shape[0]
    if k == "FsReq":
        return [C(0x00)] + fsreq(shape[1], shape[2], kind)
    if k == "FsResp":
        return [C(0x01)] + fsresp(shape[1], shape[2], shape[3], kind)
    if k == "Msg":
        return [C(0x02)] + lv(shape[1])
    if k == "Fho":
        return [C(0x04), S]
    if k == "Flow":
        return [C(0x05)] + lv(shape[1])
    if k == "Eid":
        return [C(0x06)] + varid_enc(shape[1])
    raise ValueError(shape)


def tlv_rs(shape):
    k = shape[0]
    return "Tlv::%s%s" % (k, "(%s)" % ", ".join(map(str, shape[1:])) if len(shape) > 1 else "")


def tlv_name(shape):
    return shape[0].lower() + "".join(str(x) for x in shape[1:])


def payload(fss, p, kind=S):
    """PDU payload (directive code included).  Returns (wire, canon)."""
    k = p[0]
    f = fsz(fss)
    if k == "Eof":
        t = [C(0x04), S] + [S] * 4 + [S] * f
        if p[1] is not None:
            t += [C(0x06)] + varid_enc(p[1])
        return t, t
    if k == "Fin":
        t = [C(0x05), S]
        for (l1, l2, lm) in p[1]:
            body = fsresp(l1, l2, lm, kind)
            t += [C(0x01), C(len(body))] + body
        if p[3] is not None:
            t += [C(0x06)] + varid_enc(p[3])
        return t, t
    if k == "Ack":
        t = [C(0x06), S, S]
        return t, t
    if k == "Meta":
        t = [C(0x07), S] + [S] * f + lv(p[1], kind) + lv(p[2], kind)
        for o in p[3]:
            t += tlv(o, kind)
        return t, t
    if k == "Nak":
        t = [C(0x08)] + [S] * (2 * f) + [S] * (2 * f * p[1])
        return t, t
    if k == "Prompt":
        t = [C(0x09), S]
        return t, t
    if k == "KeepAlive":
        t = [C(0x0C)] + [S] * f
        return t, t
    if k == "Unseg":
        t = [S] * f + [S] * p[1]
        return t, t
    if k == "Seg":
        # first octet = record continuation state (2 bits) | metadata length (6 bits): the whole
        # octet must be concrete, so the continuation state is part of the shape (p[3]) when a
        # shape (p[3]).
        t = [C((p[3] << 6) | p[1])] + [S] * p[1] + [S] * f + [S] * p[2]
        return t, t
    raise ValueError(p)


def pl_rs(p):
    k = p[0]

    def opt(w):
        return "None" if w is None else "Some(%d)" % w
    if k == "Eof":
        return "Pl::Eof(%s)" % opt(p[1])
    if k == "Fin":
        return "Pl::Fin(&[%s], %s, %s)" % (
            ", ".join("(%d, %d, %d)" % r for r in p[1]), "true" if p[2] else "false", opt(p[3]))
    if k == "Meta":
        return "Pl::Meta(%d, %d, &[%s])" % (p[1], p[2], ", ".join(tlv_rs(o) for o in p[3]))
    if k == "Nak":
        return "Pl::Nak(%d)" % p[1]
    if k == "Unseg":
        return "Pl::Unseg(%d)" % p[1]
    if k == "Seg":
        return "Pl::Seg(%d, %d, %d)" % (p[1], p[2], p[3])
    return "Pl::%s" % k


def pl_name(p):
    k = p[0]

    def w(x):
        return "n" if x is None else "w%d" % x
    if k == "Eof":
        return "eof_" + w(p[1])
    if k == "Fin":
        return "fin_%s%s_%s" % ("e" if p[2] else "ok",
                                 "".join("_r%d%d%d" % r for r in p[1]), w(p[3]))
    if k == "Meta":
        return "meta_%d_%d%s" % (p[1], p[2], "".join("_" + tlv_name(o) for o in p[3]))
    if k == "Nak":
        return "nak%d" % p[1]
    if k == "Unseg":
        return "unseg%d" % p[1]
    if k == "Seg":
        return "seg%d_%d_s%d" % (p[1], p[2], p[3])
    return k.lower()


def pl_is_filedata(p):
    return p[0] in ("Unseg", "Seg")


def header(we, ws, plen, crc, fss, p_filedata, seg, segctl=0, first_free=False):
    """PDU header.  Octet 0 and octet 3 carry flags that decide how the rest is parsed, so both are
    fully concrete in a template (version 001, direction 0, mode 0).  For the constructive PDU
    check octet 0 is not pinned (first_free) because version/direction/mode are symbolic there."""
    b0 = (1 << 5) | ((1 if p_filedata else 0) << 4) | ((1 if crc else 0) << 1) | (1 if fss == "Large" else 0)
    field = plen + (2 if crc else 0)
    assert field <= 0xFFFF
    b3 = (segctl << 7) | ((we - 1) << 4) | ((1 if seg else 0) << 3) | (ws - 1)
    return [S if first_free else C(b0), C(field >> 8), C(field & 0xFF), C(b3)] + [S] * (we + ws + we)


def userop(u, kind=S):
    """Reserved CFDP user operation: "cfdp" ++ message type ++ body.  Returns (wire, canon)."""
    k = u[0]
    pre = [C(0x63), C(0x66), C(0x64), C(0x70)]

    def ids(we, ws):
        return [C(((we - 1) << 4) | (ws - 1))] + [S] * (we + ws)

    def with_len(body):
        return [C(len(body))] + body
    if k == "OrigTx":
        t = [C(0x0A)] + ids(u[1], u[2])
    elif k == "ProxyPut":
        t = [C(0x00), C(u[1])] + [S] * u[1] + lv(u[2], kind) + lv(u[3], kind)
    elif k == "ProxyMsg":
        t = [C(0x01)] + lv(u[1])
    elif k == "ProxyFsReq":
        t = [C(0x02)] + with_len(fsreq(u[1], u[2], kind))
    elif k == "ProxyFho":
        t = [C(0x03), S]
    elif k == "ProxyTm":
        t = [C(0x04), S]
    elif k == "ProxyFlow":
        t = [C(0x05)] + lv(u[1])
    elif k == "ProxySegCtrl":
        t = [C(0x06), S]
    elif k == "ProxyPutCancel":
        t = [C(0x09)]
    elif k == "RespProxyPut":
        t = [C(0x07), S]
    elif k == "RespFs":
        t = [C(0x08)] + with_len(fsresp(u[1], u[2], u[3], kind))
    elif k == "RespDirList":
        t = [C(0x11), S] + lv(u[1], kind) + lv(u[2], kind)
    elif k == "RespStatus":
        t = [C(0x21), S] + ids(u[1], u[2])
    elif k == "RespSuspend":
        t = [C(0x31), S] + ids(u[1], u[2])
    elif k == "RespResume":
        t = [C(0x39), S] + ids(u[1], u[2])
    elif k == "ReqDirList":
        t = [C(0x10)] + lv(u[1], kind) + lv(u[2], kind)
    elif k == "ReqStatus":
        t = [C(0x20)] + ids(u[1], u[2]) + lv(u[3], kind)
    elif k == "ReqSuspend":
        t = [C(0x30)] + ids(u[1], u[2])
    elif k == "ReqResume":
        t = [C(0x38)] + ids(u[1], u[2])
    elif k == "SfoRequest":      # label len, src width, dst width, name lens
        t = [C(0x40), S, S] + lv(u[1]) + [C(u[2])] + [S] * u[2] + [C(u[3])] + [S] * u[3] \
            + lv(u[4], kind) + lv(u[5], kind)
    elif k == "SfoMsg":
        t = [C(0x41)] + lv(u[1])
    elif k == "SfoFlow":
        t = [C(0x42)] + lv(u[1])
    elif k == "SfoFho":
        t = [C(0x43), S]
    elif k == "SfoFsReq":
        t = [C(0x44)] + with_len(fsreq(u[1], u[2], kind))
    elif k == "SfoReport":       # label len, src, dst, reporting widths
        t = [C(0x45)] + lv(u[1]) + [C(u[2])] + [S] * u[2] + [C(u[3])] + [S] * u[3] \
            + [C(u[4])] + [S] * u[4] + [S, S, S]
    elif k == "SfoFsResp":
        t = [C(0x46)] + with_len(fsresp(u[1], u[2], u[3], kind))
    else:
        raise ValueError(u)
    return pre + t, pre + t


def uo_rs(u):
    return "Uo::%s%s" % (u[0], "(%s)" % ", ".join(map(str, u[1:])) if len(u) > 1 else "")


def uo_name(u):
    return u[0].lower() + ("_" + "_".join(str(x) for x in u[1:]) if len(u) > 1 else "")


# ================================================================================================
# Harness table
# ================================================================================================
FAMILIES = {}      # name -> dict(property, kind, bound, doc)
HARNESSES = []     # dicts: name, family, K, unwind, call, accept, tier
_names = set()


def family(name, prop, kind, bound, doc):
    FAMILIES[name] = dict(property=prop, kind=kind, bound=bound, doc=doc)


def rs_pins(pins):
    return "&[%s]" % ", ".join("(%d, %d)" % p for p in pins)


def rs_tpl(t):
    return "&[%s]" % ", ".join("(0x%02x, 0x%02x)" % o for o in t)


def rs_guards(g):
    return "&[%s]" % ", ".join("(%d, 0x%02x, 0x%02x, %s)" % (a, b, c, "true" if d else "false")
                                for (a, b, c, d) in g)


def add(fam, name, K, call, unwind, accept=True, tier="quick"):
    assert fam in FAMILIES, fam
    full = fam + "__" + name
    assert full not in _names, full
    _names.add(full)
    HARNESSES.append(dict(name=full, family=fam, K=K, unwind=unwind, call=call,
                          accept=accept, tier=tier))


def unwind_for(n, pins=()):
    return max(10, n + 2, len(pins) + 2)


def add_rt(fam, name, fn_args, canon, tier="quick", slack=1):
    """constructive round trip: call = checks::<fn>(<args>, PINS, n, b)"""
    n = len(canon)
    pins = pins_of(canon)
    call = "checks::%s, %s, %d, b)" % (fn_args, rs_pins(pins), n)
    add(fam, name, n + slack, call, unwind_for(n, pins), True, tier)


def add_dec(fam, name, dec, wire, canon=None, guards=(), lax=False, accept=None, tier="quick"):
    """template-driven decode check"""
    K = len(wire)
    assert K <= 64, (name, K)
    if canon is None:
        c = "None"
        npins = 0
    else:
        pins = pins_of(canon)
        npins = len(pins)
        c = "Some((%d, %s))" % (len(canon), rs_pins(pins))
    call = "checks::c06_decode(Dec::%s, %s, %s, %s, %s, b)" % (
        dec, rs_tpl(wire), rs_guards(guards), c, "true" if lax else "false")
    if accept is None:
        accept = canon is not None
    add(fam, name, K, call, unwind_for(K, [0] * npins), accept, tier)


L_Q = (0, 1, 2)
FSS = ("Small", "Large")


def fs(fss):
    return "Fss::" + fss


def fl(fss):
    return fss[0].lower()


# ---------------------------------------------------------------------------------------------- C05
def gen_c05():
    family("c05_fixed", "C05", "complete", "",
           "fixed-layout values: VariableID, TransmissionMode, FaultHandlerOverride, "
           "SegmentRequestForm, EOF, ACK, Prompt, KeepAlive, NAK (0..2 requests; 3,4 thorough), "
           "EntityID/FaultHandlerOverride TLVs. One harness per width/flag shape; all value "
           "fields symbolic full width")
    for w in WIDTHS:
        add_rt("c05_fixed", "varid_w%d" % w, "c05_varid(%d" % w, varid_enc(w))
        add_rt("c05_fixed", "tlv_eid_w%d" % w, "c05_tlv(Tlv::Eid(%d), false" % w, tlv(("Eid", w)))
    add_rt("c05_fixed", "tmode", "c05_tmode(", [S])
    HARNESSES[-1]["call"] = HARNESSES[-1]["call"].replace("c05_tmode(, ", "c05_tmode(")
    add_rt("c05_fixed", "fho", "c05_tlv(Tlv::Fho, true", [S])
    add_rt("c05_fixed", "tlv_fho", "c05_tlv(Tlv::Fho, false", tlv(("Fho",)))
    for fss in FSS:
        add_rt("c05_fixed", "segreq_" + fl(fss), "c05_segreq(%s" % fs(fss), [S] * (2 * fsz(fss)))
        pls = [("Eof", None)] + [("Eof", w) for w in WIDTHS] + [("KeepAlive",)] \
            + [("Nak", n) for n in (0, 1, 2)]
        for p in pls:
            add_rt("c05_fixed", pl_name(p) + "_" + fl(fss),
                   "c05_payload(%s, %s" % (fs(fss), pl_rs(p)), payload(fss, p)[1])
        for n in (3, 4):
            p = ("Nak", n)
            if len(payload(fss, p)[1]) <= 64:
                add_rt("c05_fixed", pl_name(p) + "_" + fl(fss),
                       "c05_payload(%s, %s" % (fs(fss), pl_rs(p)), payload(fss, p)[1], "thorough")
    for p in (("Ack",), ("Prompt",)):
        add_rt("c05_fixed", pl_name(p), "c05_payload(Fss::Small, %s" % pl_rs(p),
               payload("Small", p)[1])

    family("c05_header", "C05", "complete", "",
           "PDUHeader for every (entity width, sequence width, segmentation control, segment "
           "metadata flag); version, type, direction, mode, CRC flag, file-size flag, the 16-bit "
           "length and all identifier values symbolic")
    for we in WIDTHS:
        for ws in WIDTHS:
            for segctl in (0, 1):
                for seg in (0, 1):
                    t = header(we, ws, 0, False, "Small", False, seg, segctl)
                    t[0] = S
                    t[1] = S
                    t[2] = S
                    tier = "quick" if (segctl, seg) in ((0, 0), (1, 1)) or we == ws else "thorough"
                    add_rt("c05_header", "e%d_s%d_c%d_m%d" % (we, ws, segctl, seg),
                           "c05_header(%d, %d, %s, %s" % (we, ws, "true" if segctl else "false",
                                                         "true" if seg else "false"), t, tier, 0)

    family("c05_var", "C05", "bounded",
           "string / TLV body / list lengths in {0,1,2} (quick), plus 3, 255-octet bodies and "
           "63-octet segment metadata (thorough); file names ASCII",
           "FlowLabel, MessageToUser, FileStoreRequest/Response (standalone and as TLV), "
           "Finished, Metadata, FileData (both kinds)")
    for n in (0, 1, 2, 3, 255):
        tier = "quick" if n in L_Q else "thorough"
        for k in ("Flow", "Msg"):
            add_rt("c05_var", "tlv_%s%d" % (k.lower(), n), "c05_tlv(Tlv::%s(%d), false" % (k, n),
                   tlv((k, n)), tier)
            add_rt("c05_var", "%s%d" % (k.lower(), n), "c05_tlv(Tlv::%s(%d), true" % (k, n),
                   tlv((k, n))[1:], tier)
    for l1 in (0, 1, 2, 3):
        for l2 in (0, 1, 2, 3):
            tier = "quick" if l1 in L_Q and l2 in L_Q else "thorough"
            add_rt("c05_var", "tlv_fsreq%d%d" % (l1, l2),
                   "c05_tlv(Tlv::FsReq(%d, %d), false" % (l1, l2), tlv(("FsReq", l1, l2)), tier)
            if l1 == l2:
                add_rt("c05_var", "fsreq%d%d" % (l1, l2),
                       "c05_tlv(Tlv::FsReq(%d, %d), true" % (l1, l2), tlv(("FsReq", l1, l2))[1:], tier)
            for lm in (0, 1, 2, 3):
                tier2 = "quick" if tier == "quick" and lm in L_Q else "thorough"
                if 3 in (l1, l2, lm) and not (l1 == l2 == lm or (l1, l2, lm) in ((3, 0, 1), (0, 3, 2), (1, 2, 3))):
                    continue
                add_rt("c05_var", "tlv_fsresp%d%d%d" % (l1, l2, lm),
                       "c05_tlv(Tlv::FsResp(%d, %d, %d), false" % (l1, l2, lm),
                       tlv(("FsResp", l1, l2, lm)), tier2)
                if l1 == l2 == lm:
                    add_rt("c05_var", "fsresp%d%d%d" % (l1, l2, lm),
                           "c05_tlv(Tlv::FsResp(%d, %d, %d), true" % (l1, l2, lm),
                           tlv(("FsResp", l1, l2, lm))[1:], tier2)
    add_rt("c05_var", "tlv_fsreq_255_0", "c05_tlv(Tlv::FsReq(255, 0), false", tlv(("FsReq", 255, 0)),
           "thorough")
    add_rt("c05_var", "tlv_fsresp_0_0_255", "c05_tlv(Tlv::FsResp(0, 0, 255), false",
           tlv(("FsResp", 0, 0, 255)), "thorough")
    # Finished
    rlists_q = [(), ((1, 0, 2),), ((0, 2, 1),), ((2, 2, 2),), ((1, 1, 0), (0, 1, 1)),
                ((2, 0, 1), (1, 2, 0))]
    rlists_t = [((3, 3, 3),), ((0, 0, 0), (1, 1, 1), (2, 2, 2)), ((3, 0, 1), (0, 3, 0), (1, 0, 3))]
    conds = [(False, None), (True, None)] + [(True, w) for w in WIDTHS]
    for rl in rlists_q + rlists_t:
        for (err, fw) in conds:
            p = ("Fin", rl, err, fw)
            canon = payload("Small", p, A)[1]
            if len(canon) > 64:
                continue
            tier = "quick" if rl in rlists_q and (fw in (None, 2) or len(rl) <= 1) else "thorough"
            add_rt("c05_var", pl_name(p), "c05_payload(Fss::Small, %s" % pl_rs(p), canon, tier)
    # Metadata
    opts_q = [(), (("Msg", 1),), (("Fho",),), (("Flow", 2),), (("Eid", 4),), (("FsReq", 1, 1),),
              (("FsResp", 1, 0, 1),), (("Msg", 2), ("Fho",)), (("Flow", 1), ("Eid", 2))]
    opts_t = [(("Msg", 0), ("Flow", 0), ("Eid", 1)), (("FsReq", 2, 0), ("FsResp", 0, 2, 2)),
              (("Eid", 8), ("Msg", 3), ("Fho",)), (("Fho",), ("Fho",), ("Fho",))]
    for fss in FSS:
        for (ls, ld) in ((1, 2), (0, 0), (2, 1), (2, 2), (3, 3), (0, 3)):
            for o in opts_q + opts_t:
                if (ls, ld) != (1, 2) and o != ():
                    continue
                p = ("Meta", ls, ld, o)
                tier = "quick" if o in opts_q and 3 not in (ls, ld) else "thorough"
                add_rt("c05_var", pl_name(p) + "_" + fl(fss),
                       "c05_payload(%s, %s" % (fs(fss), pl_rs(p)), payload(fss, p, A)[1], tier)
        for n in (0, 1, 2, 3):
            p = ("Unseg", n)
            add_rt("c05_var", pl_name(p) + "_" + fl(fss),
                   "c05_payload(%s, %s" % (fs(fss), pl_rs(p)), payload(fss, p)[1],
                   "quick" if n in L_Q else "thorough")
        for r in (0, 1, 2, 3):
            for (m, n) in ((0, 1), (1, 1), (2, 1), (1, 0), (2, 2), (3, 3), (63, 1)):
                if (m, n) in ((1, 0), (2, 2)) and r != 3:
                    continue
                p = ("Seg", m, n, r)
                tier = "quick" if max(m, n) <= 2 else "thorough"
                if m == 63 and (r != 1):
                    continue
                add_rt("c05_var", pl_name(p) + "_" + fl(fss),
                       "c05_payload(%s, %s" % (fs(fss), pl_rs(p)), payload(fss, p)[1], tier)

    family("c05_userops", "C05", "bounded",
           "every identifier width combination (complete for the identifier-only kinds); string / "
           "body lengths in {0,1,2}; SFORequest / SFOReport / ProxySegmentationControl have "
           "private fields and are proved from the decoder side only",
           "all 26 reserved CFDP user operations")
    two_ids = ["OrigTx", "RespStatus", "RespResume", "RespSuspend", "ReqSuspend", "ReqResume"]
    for k in two_ids:
        for we in WIDTHS:
            for ws in WIDTHS:
                u = (k, we, ws)
                add_rt("c05_userops", uo_name(u), "c05_userop(%s" % uo_rs(u), userop(u)[1])
    for we in WIDTHS:
        for ws in WIDTHS:
            for l in ((1,) if (we, ws) != (1, 1) else (0, 1, 2)):
                u = ("ReqStatus", we, ws, l)
                add_rt("c05_userops", uo_name(u), "c05_userop(%s" % uo_rs(u), userop(u, A)[1])
    for w in WIDTHS:
        for (l1, l2) in (((1, 2),) if w != 2 else ((1, 2), (0, 0), (2, 1))):
            u = ("ProxyPut", w, l1, l2)
            add_rt("c05_userops", uo_name(u), "c05_userop(%s" % uo_rs(u), userop(u, A)[1])
    for k in ("ProxyMsg", "ProxyFlow", "SfoMsg", "SfoFlow"):
        for n in L_Q:
            u = (k, n)
            add_rt("c05_userops", uo_name(u), "c05_userop(%s" % uo_rs(u), userop(u)[1])
    for k in ("ProxyFho", "ProxyTm", "ProxyPutCancel", "RespProxyPut", "SfoFho"):
        u = (k,)
        add_rt("c05_userops", uo_name(u), "c05_userop(%s" % uo_rs(u), userop(u)[1])
    for k in ("ProxyFsReq", "SfoFsReq", "RespDirList", "ReqDirList"):
        for (l1, l2) in ((0, 0), (1, 2), (2, 1), (2, 2), (0, 1)):
            u = (k, l1, l2)
            add_rt("c05_userops", uo_name(u), "c05_userop(%s" % uo_rs(u), userop(u, A)[1])
    for k in ("RespFs", "SfoFsResp"):
        for (l1, l2, lm) in ((0, 0, 0), (1, 2, 0), (2, 1, 2), (0, 1, 1), (2, 2, 2)):
            u = (k, l1, l2, lm)
            add_rt("c05_userops", uo_name(u), "c05_userop(%s" % uo_rs(u), userop(u, A)[1])
    # decoder-side (private fields)
    u = ("ProxySegCtrl",)
    w, c = userop(u)
    add_dec("c05_userops", "dec_" + uo_name(u), "UserOp", w, c)
    for (ll, a, b, c3) in ((0, 1, 1, 1), (2, 2, 2, 2), (1, 4, 4, 4), (0, 8, 8, 8), (1, 1, 2, 4),
                           (2, 8, 4, 2), (1, 2, 8, 1)):
        u = ("SfoReport", ll, a, b, c3)
        w, c = userop(u)
        add_dec("c05_userops", "dec_" + uo_name(u), "UserOp", w, c)
    for (ll, a, b, l1, l2) in ((0, 1, 1, 0, 0), (1, 2, 4, 1, 1), (2, 8, 8, 1, 0), (0, 4, 2, 0, 1),
                               (1, 4, 8, 1, 1), (1, 1, 2, 1, 1)):
        u = ("SfoRequest", ll, a, b, l1, l2)
        w, c = userop(u, A)
        add_dec("c05_userops", "dec_" + uo_name(u), "UserOp", w, c)

    family("c05_pdu", "C05", "bounded",
           "payload shapes as listed in the harness names; identifier widths (1,1) (2,4) (4,2) "
           "(8,8) rotated over the payload kinds in the quick tier, all four for each in thorough",
           "whole PDU (header ++ payload ++ CRC) through PDU::encode/decode, CRC on and off, "
           "small and large file-size encodings")
    kinds = [("Eof", None), ("Eof", 2), ("Ack",), ("KeepAlive",), ("Nak", 1), ("Prompt",),
             ("Unseg", 2), ("Seg", 1, 1, 2), ("Meta", 1, 1, (("Fho",),)),
             ("Fin", ((1, 0, 1),), True, 1)]
    wcombos = [(1, 1), (2, 4), (4, 2), (8, 8)]
    i = 0
    for p in kinds:
        for crc in (0, 1):
            for fss in FSS:
                for j, (we, ws) in enumerate(wcombos):
                    pw, pc = payload(fss, p, A)
                    segctl = (i + j) & 1
                    h = header(we, ws, len(pc), crc, fss, pl_is_filedata(p), p[0] == "Seg", segctl,
                               first_free=True)
                    canon = h + pc + ([S, S] if crc else [])
                    if len(canon) > 64:
                        continue
                    tier = "quick" if j == i % 4 else "thorough"
                    add_rt("c05_pdu", "%s_%s_crc%d_e%d_s%d" % (pl_name(p), fl(fss), crc, we, ws),
                           "c05_pdu(%d, %d, %s, %s, %s, %s" % (
                               we, ws, "true" if crc else "false", "true" if segctl else "false",
                               fs(fss), pl_rs(p)), canon, tier)
                i += 1

    family("c05_report", "C05", "complete", "",
           "daemon::Report for every identifier width pair; state, status, condition symbolic")
    for we in WIDTHS:
        for ws in WIDTHS:
            add_rt("c05_report", "e%d_s%d" % (we, ws), "c05_report(%d, %d" % (we, ws),
                   varid_enc(we) + varid_enc(ws) + [S, S, S])


# ---------------------------------------------------------------------------------------------- C06
def dgram(fss, pw, pc, crc=False, filedata=False, seg=False, we=1, ws=1):
    """(wire, canon) of a whole datagram from payload templates (pc None: expected malformed)."""
    tail = [S, S] if crc else []
    w = header(we, ws, len(pw), crc, fss, filedata, seg) + pw + tail
    c = None if pc is None else header(we, ws, len(pc), crc, fss, filedata, seg) + pc + tail
    return w, c


HL = 7   # header length with 1-octet identifiers


def add_pdu(fam, name, fss, pw, pc, guards=(), tier="quick", **kw):
    w, c = dgram(fss, pw, pc, **kw)
    if len(w) > 64:
        return
    add_dec(fam, name + "_" + fl(fss), "Pdu", w, c, guards, tier=tier)


def add_trunc(fam, name, fss, pw, tier="quick", crc=False, accept=True, **kw):
    w, _ = dgram(fss, pw, pw, crc=crc, **kw)
    if len(w) > 64:
        return
    K = len(w)
    call = "checks::c06_pdu_trunc(%s, %d, %s, b)" % (rs_tpl(w), HL, "true" if crc else "false")
    add(fam, name + "_" + fl(fss), K, call, unwind_for(K), accept, tier)


def add_free(fam, name, dec, n, trunc=True, accept=True, tier="quick", unwind=10):
    K = n + (1 if trunc else 0)
    call = "checks::c06_free(Dec::%s, %d, %s, b)" % (dec, n, "true" if trunc else "false")
    add(fam, name, K, call, unwind, accept, tier)


def gen_c06():
    family("c06_arith", "C06", "complete", "",
           "all-octets-free no-panic proofs of the leaf decoders whose arithmetic depends on an "
           "input octet: PDUHeader::decode over 28 free octets (all 2^16 length values x CRC flag x "
           "every first/fourth octet x every identifier), VariableID::decode and "
           "read_length_value_pair over a free length octet + 256 free octets, "
           "SegmentedFileData::decode over a free first octet + 63 + 8 + 1 octets, "
           "TransmissionMode / FaultHandlerOverride / SegmentRequestForm over all octets; each also "
           "for every truncation (symbolic cut)")
    add_free("c06_arith", "hdr_all", "Header", 28)
    add_free("c06_arith", "varid_all", "VarId", 257)
    add_free("c06_arith", "lv_all", "Lv", 256)
    add_free("c06_arith", "tmode_all", "TMode", 1)
    add_free("c06_arith", "fho_all", "Fho", 1)
    for fss in FSS:
        add_free("c06_arith", "segdata_first_" + fl(fss), "Payload(true, %s, true)" % fs(fss),
                 1 + 63 + fsz(fss) + 1)
        add_free("c06_arith", "unseg_" + fl(fss), "Payload(true, %s, false)" % fs(fss),
                 fsz(fss) + 2)
        add_free("c06_arith", "segreq_" + fl(fss), "SegReq(%s)" % fs(fss), 2 * fsz(fss))

    # ---- per-type decoders -------------------------------------------------------------------
    family("c06_types", "C06", "bounded",
           "type / length octets enumerated (string and body lengths in {0,1,2}, identifier "
           "widths 1,2,4,8), all value octets free; plus all-free inputs of 4..8 octets for the "
           "flat decoders",
           "public per-type decoders: UserOperation (all 27 message types + unknown), MetadataTLV, "
           "FileStoreRequest, FileStoreResponse, FaultHandlerOverride, FlowLabel, MessageToUser, "
           "VariableID, Report, PDUHeader: never panic, and what they accept is canonical")
    T = "c06_types"
    # user operations, exact shapes (free, i.e. possibly non-UTF-8, name octets)
    uos = []
    for k in ("OrigTx", "RespStatus", "RespResume", "RespSuspend", "ReqSuspend", "ReqResume"):
        uos += [(k, 1, 1), (k, 2, 4), (k, 8, 8), (k, 4, 1)]
    uos += [("ReqStatus", 1, 1, 0), ("ReqStatus", 2, 8, 2), ("ReqStatus", 4, 4, 1)]
    uos += [("ProxyPut", w, 1, 2) for w in WIDTHS] + [("ProxyPut", 1, 0, 0)]
    for k in ("ProxyMsg", "ProxyFlow", "SfoMsg", "SfoFlow"):
        uos += [(k, n) for n in L_Q]
    uos += [(k,) for k in ("ProxyFho", "ProxyTm", "ProxySegCtrl", "ProxyPutCancel",
                            "RespProxyPut", "SfoFho")]
    for k in ("ProxyFsReq", "SfoFsReq", "RespDirList", "ReqDirList"):
        uos += [(k, 0, 0), (k, 1, 2), (k, 2, 1)]
    for k in ("RespFs", "SfoFsResp"):
        uos += [(k, 0, 0, 0), (k, 1, 2, 0), (k, 2, 0, 2)]
    uos += [("SfoReport", 0, 1, 1, 1), ("SfoReport", 2, 2, 4, 8), ("SfoReport", 1, 8, 8, 8)]
    uos += [("SfoRequest", 0, 1, 1, 0, 0), ("SfoRequest", 1, 2, 4, 1, 1), ("SfoRequest", 2, 8, 8, 0, 1)]
    for u in uos:
        # SFORequest can only be compared with the derived (path component) equality: ASCII names
        w, c = userop(u, A if u[0] == "SfoRequest" else S)
        add_dec(T, "uo_" + uo_name(u), "UserOp", w, c)
    pre = [C(0x63), C(0x66), C(0x64), C(0x70)]
    # malformed: unknown / unsupported message types, bad identifier widths, inner length octets
    # that exceed the body, wrong reserved identifier
    for mt in (0x0B, 0x0C, 0x12, 0x47, 0xFF):
        add_dec(T, "uo_badtype_%02x" % mt, "UserOp", pre + [C(mt), S, S], None)
    for (we, ws) in ((3, 1), (1, 5), (7, 6)):
        add_dec(T, "uo_origtx_badwidth_%d_%d" % (we, ws), "UserOp",
                pre + [C(0x0A), C(((we - 1) << 4) | (ws - 1))] + [S] * (we + ws), None)
    for w in (0, 3, 9):
        add_dec(T, "uo_proxyput_badwidth_%d" % w, "UserOp",
                pre + [C(0x00), C(w)] + [S] * w + lv(1) + lv(1), None)
    add_dec(T, "uo_reqdirlist_overlong", "UserOp", pre + [C(0x10), C(1), S, C(3), S, S], None)
    add_dec(T, "uo_sforeport_badwidth", "UserOp",
            pre + [C(0x45), C(0), C(3), S, S, S, C(1), S, C(1), S, S, S, S], None)
    add_dec(T, "uo_free_ident", "UserOp", [S] * 7, None, lax=True, accept=False)
    # the ignored length octet of the four "file store inside a user operation" kinds: any value
    for (k, mt) in (("ProxyFsReq", 0x02), ("RespFs", 0x08), ("SfoFsReq", 0x44), ("SfoFsResp", 0x46)):
        body = fsreq(1, 1) if "Req" in k else fsresp(1, 0, 1)
        add_dec(T, "uo_%s_anylen" % k.lower(), "UserOp", pre + [C(mt), S] + body,
                pre + [C(mt), C(len(body))] + body)
    # TLVs
    tl = [("FsReq", a, b) for (a, b) in ((0, 0), (1, 2), (2, 1), (2, 2))]
    tl += [("FsResp", a, b, c) for (a, b, c) in ((0, 0, 0), (1, 0, 2), (0, 2, 1), (2, 2, 2))]
    tl += [("Msg", n) for n in L_Q] + [("Flow", n) for n in L_Q] + [("Fho",)]
    tl += [("Eid", w) for w in WIDTHS]
    for t in tl:
        add_dec(T, "tlv_" + tlv_name(t), "Tlv", tlv(t), tlv(t))
    for code in (0x03, 0x07, 0xFF):
        add_dec(T, "tlv_badtype_%02x" % code, "Tlv", [C(code), S, S], None)
    for wm1 in (2, 4, 5, 6, 8, 0xFE):
        add_dec(T, "tlv_eid_badwidth_%02x" % wm1, "Tlv", [C(0x06), C(wm1)] + [S] * min(wm1 + 1, 12), None)
    add_dec(T, "tlv_fsreq_overlong", "Tlv", [C(0x00), S, C(1), S, C(4), S, S], None)
    # standalone decoders
    for (a, b) in ((0, 0), (1, 2), (2, 2)):
        add_dec(T, "fsreq_%d%d" % (a, b), "FsReq", fsreq(a, b), fsreq(a, b))
    for (a, b, c) in ((0, 0, 0), (1, 2, 1), (2, 2, 2)):
        add_dec(T, "fsresp_%d%d%d" % (a, b, c), "FsResp", fsresp(a, b, c), fsresp(a, b, c))
    for n in L_Q:
        add_dec(T, "flow_%d" % n, "Flow", lv(n), lv(n))
        add_dec(T, "msg_%d" % n, "Msg", lv(n), lv(n))
    for we in WIDTHS:
        for ws in WIDTHS:
            rep = varid_enc(we) + varid_enc(ws) + [S, S, S]
            add_dec(T, "report_e%d_s%d" % (we, ws), "Report", rep, rep,
                    tier="quick" if we == ws or (we, ws) in ((1, 8), (4, 2)) else "thorough")
    add_dec(T, "report_badwidth", "Report", [C(2), S, S, S, C(0), S, S, S, S], None)
    for we in WIDTHS:
        for ws in WIDTHS:
            for segctl in (0, 1):
                for seg in (0, 1):
                    h = header(we, ws, 0, False, "Small", False, seg, segctl)
                    h[0] = S
                    h[1] = S
                    h[2] = S
                    # CRC flag set and length field < 2 is malformed: guard it out here (it is
                    # covered by c06_arith hdr_all); canonical otherwise
                    tier = "quick" if we == ws and segctl == seg else "thorough"
                    add_dec(T, "hdr_e%d_s%d_c%d_m%d" % (we, ws, segctl, seg), "Header", h, h, tier=tier)
    # all-free inputs for the flat / shallow decoders
    add_free(T, "free_report", "Report", 8)
    add_free(T, "free_tlv", "Tlv", 4, tier="thorough")
    add_free(T, "free_fsreq", "FsReq", 4, tier="thorough")
    add_free(T, "free_fsresp", "FsResp", 5, tier="thorough")
    add_free(T, "free_flow", "Flow", 4)
    add_free(T, "free_msg", "Msg", 4)

    # ---- whole datagrams -----------------------------------------------------------------------
    doc_c = ("PDU::decode on whole datagrams (7-octet header with 1-octet identifiers, CRC off "
             "unless stated; header variety is covered by c06_arith/c06_types/c05_header): "
             "well-formed layouts, with and without ignored trailing octets; every accepted "
             "datagram re-encodes (length field recomputed) to something that decodes to the same PDU")
    doc_b = ("PDU::decode never panics / loops on malformed layouts: every truncation of the "
             "longest layouts (length field adjusted), unknown / unexpected TLV and directive codes, "
             "inner lengths exceeding outer ones, bad identifier widths")
    bound = ("first 4 header octets, directive code, TLV type and length octets enumerated; "
             "string / body / list lengths in {0,1,2}; all other octets free")
    classes = ("eof", "finished", "ack", "metadata", "nak", "prompt", "keepalive", "filedata", "misc")
    for c in classes:
        family("c06_canon_" + c, "C06", "bounded", bound, doc_c)
        family("c06_bytes_" + c, "C06", "bounded", bound, doc_b)

    B0 = HL + 1   # wire index of the octet after the directive code
    for fss in FSS:
        f = fsz(fss)
        # EOF
        base = [C(0x04), S] + [S] * 4 + [S] * f
        add_pdu("c06_canon_eof", "noerr", fss, base, base, [(B0, 0xF0, 0x00, True)])
        add_pdu("c06_canon_eof", "noerr_trail2", fss, base + [S, S], base, [(B0, 0xF0, 0x00, True)])
        for w in WIDTHS:
            t = base + [C(0x06)] + varid_enc(w)
            add_pdu("c06_canon_eof", "err_w%d" % w, fss, t, t, [(B0, 0xF0, 0x00, False)])
        t = base + [C(0x06)] + varid_enc(2) + [S]
        add_pdu("c06_canon_eof", "err_w2_trail1", fss, t, t[:-1], [(B0, 0xF0, 0x00, False)])
        for code in (0x01, 0x05, 0x03, 0x6):
            if code == 0x6:
                continue
            add_pdu("c06_bytes_eof", "err_tlvtype_%02x" % code, fss, base + [C(code), C(0), S], None,
                    [(B0, 0xF0, 0x00, False)])
        for wm1 in (2, 4, 0xFF):
            add_pdu("c06_bytes_eof", "err_badwidth_%02x" % wm1, fss,
                    base + [C(0x06), C(wm1)] + [S] * 9, None, [(B0, 0xF0, 0x00, False)])
        add_trunc("c06_bytes_eof", "trunc_err_w8", fss, base + [C(0x06)] + varid_enc(8))

        # ACK / Prompt / KeepAlive
        if fss == "Small":
            add_pdu("c06_canon_ack", "exact", fss, [C(0x06), S, S], [C(0x06), S, S])
            add_pdu("c06_canon_ack", "trail2", fss, [C(0x06), S, S, S, S], [C(0x06), S, S])
            add_trunc("c06_bytes_ack", "trunc", fss, [C(0x06), S, S])
            add_pdu("c06_canon_prompt", "exact", fss, [C(0x09), S], [C(0x09), S])
            add_pdu("c06_canon_prompt", "trail1", fss, [C(0x09), S, S], [C(0x09), S])
            add_trunc("c06_bytes_prompt", "trunc", fss, [C(0x09), S])
        ka = [C(0x0C)] + [S] * f
        add_pdu("c06_canon_keepalive", "exact", fss, ka, ka)
        add_pdu("c06_canon_keepalive", "trail2", fss, ka + [S, S], ka)
        add_trunc("c06_bytes_keepalive", "trunc", fss, ka)

        # NAK
        for n in (0, 1, 2, 3):
            t = payload(fss, ("Nak", n))[0]
            add_pdu("c06_canon_nak", "n%d" % n, fss, t, t, tier="quick" if n < 3 else "thorough")
        t = payload(fss, ("Nak", 1))[0]
        add_trunc("c06_bytes_nak", "trunc_n1", fss, t)
        add_trunc("c06_bytes_nak", "trunc_n2", fss, payload(fss, ("Nak", 2))[0], tier="thorough")

        # file data
        for n in (0, 1, 2, 6):
            t = [S] * (f + n)
            add_pdu("c06_canon_filedata", "unseg%d" % n, fss, t, t, filedata=True,
                    tier="quick" if n < 6 else "thorough")
        add_trunc("c06_bytes_filedata", "trunc_unseg2", fss, [S] * (f + 2), filedata=True)
        for r in (0, 1, 2, 3):
            for (m, n) in ((0, 0), (1, 1), (2, 0), (0, 2), (2, 2), (6, 6)):
                if (m, n) != (1, 1) and r != 1:
                    continue
                t = payload(fss, ("Seg", m, n, r))[0]
                add_pdu("c06_canon_filedata", "seg%d_%d_s%d" % (m, n, r), fss, t, t, filedata=True,
                        seg=True, tier="quick" if max(m, n) < 6 else "thorough")
        add_trunc("c06_bytes_filedata", "trunc_seg2_1", fss, payload(fss, ("Seg", 2, 1, 2))[0],
                  filedata=True, seg=True)

        # Finished (fss does not matter: only under Small)
        if fss == "Small":
            def resp(l1, l2, lm, extra=0):
                body = fsresp(l1, l2, lm)
                return ([C(0x01), C(len(body) + extra)] + body + [S] * extra,
                        [C(0x01), C(len(body))] + body)

            def eid(w):
                return ([C(0x06)] + varid_enc(w),) * 2
            fin = [C(0x05), S]
            shapes = {
                "empty": [],
                "r102": [resp(1, 0, 2)],
                "r021": [resp(0, 2, 1)],
                "r222": [resp(2, 2, 2)],
                "r000_x2": [resp(0, 0, 0, 2)],
                "r110_r011": [resp(1, 1, 0), resp(0, 1, 1)],
                "r000_r000_r000": [resp(0, 0, 0)] * 3,
            }
            for nm, items in shapes.items():
                w = fin + [o for it in items for o in it[0]]
                c = fin + [o for it in items for o in it[1]]
                add_pdu("c06_canon_finished", nm, fss, w, c)
                for wd in WIDTHS:
                    if nm not in ("empty", "r102") and wd not in (2,):
                        continue
                    e = eid(wd)
                    add_pdu("c06_canon_finished", nm + "_w%d" % wd, fss, w + e[0], c + e[1],
                            [(B0, 0xF0, 0x00, False)])
            # fault location first / twice: accepted, canonical form has it last / once
            r = resp(1, 0, 1)
            add_pdu("c06_canon_finished", "w2_then_r101", fss, fin + eid(2)[0] + r[0],
                    fin + r[1] + eid(2)[1], [(B0, 0xF0, 0x00, False)])
            add_pdu("c06_canon_finished", "w1_w4", fss, fin + eid(1)[0] + eid(4)[0],
                    fin + eid(4)[1], [(B0, 0xF0, 0x00, False)])
            # malformed
            add_pdu("c06_bytes_finished", "noerr_with_eid", fss, fin + eid(2)[0], None,
                    [(B0, 0xF0, 0x00, True)])
            for code in (0x00, 0x02, 0x04, 0x05, 0x03, 0x07, 0xFF):
                add_pdu("c06_bytes_finished", "tlvtype_%02x" % code, fss, fin + [C(code), C(1), S], None)
            add_pdu("c06_bytes_finished", "resp_outer_short", fss,
                    fin + [C(0x01), C(3), S, C(2), S], None)
            add_pdu("c06_bytes_finished", "resp_outer_overruns", fss,
                    fin + [C(0x01), C(9), S, C(0), C(0), C(0)], None)
            add_pdu("c06_bytes_finished", "resp_inner_overlong", fss,
                    fin + [C(0x01), C(4), S, C(0), C(0), C(5)], None)
            add_pdu("c06_bytes_finished", "resp_len0", fss, fin + [C(0x01), C(0)], None)
            for wm1 in (2, 6, 0xFF):
                add_pdu("c06_bytes_finished", "eid_badwidth_%02x" % wm1, fss,
                        fin + [C(0x06), C(wm1)] + [S] * 8, None)
            w = fin + resp(1, 1, 1)[0] + eid(2)[0]
            add_trunc("c06_bytes_finished", "trunc_r111_w2", fss, w)
            w = fin + resp(0, 0, 0)[0] + resp(2, 0, 0)[0]
            add_trunc("c06_bytes_finished", "trunc_r000_r200", fss, w)

        # Metadata
        def meta(ls, ld, opts):
            return payload(fss, ("Meta", ls, ld, opts))[0]
        mshapes = [(0, 0, ()), (1, 2, ()), (2, 1, (("Msg", 1),)), (1, 1, (("Fho",),)),
                   (1, 0, (("Flow", 2),)), (0, 1, (("Eid", 4),)), (1, 1, (("FsReq", 1, 1),)),
                   (1, 1, (("FsResp", 1, 0, 1),)), (1, 1, (("Msg", 2), ("Fho",))),
                   (0, 0, (("Flow", 1), ("Eid", 2), ("Msg", 0)))]
        for (ls, ld, o) in mshapes:
            if fss == "Large" and len(o) > 1:
                continue
            t = meta(ls, ld, o)
            add_pdu("c06_canon_metadata", pl_name(("Meta", ls, ld, o)), fss, t, t)
        m0 = meta(1, 1, ())
        for code in (0x03, 0x07, 0xFF):
            add_pdu("c06_bytes_metadata", "tlvtype_%02x" % code, fss, m0 + [C(code), S], None)
        add_pdu("c06_bytes_metadata", "eid_badwidth", fss, m0 + [C(0x06), C(2), S, S, S], None)
        add_pdu("c06_bytes_metadata", "name_overlong", fss,
                [C(0x07), S] + [S] * f + [C(1), S, C(9), S, S], None)
        add_pdu("c06_bytes_metadata", "msg_overlong", fss, m0 + [C(0x02), C(3), S], None)
        add_trunc("c06_bytes_metadata", "trunc_1_1_msg1_fho", fss, meta(1, 1, (("Msg", 1), ("Fho",))))
        add_trunc("c06_bytes_metadata", "trunc_2_0_fsreq11", fss, meta(2, 0, (("FsReq", 1, 1),)),
                  tier="thorough")

        # misc: unknown directive codes, empty payloads
        for code in (0x00, 0x03, 0x0A, 0x0B, 0x0D, 0xFF):
            add_pdu("c06_bytes_misc", "directive_%02x" % code, fss, [C(code), S, S], None,
                    tier="quick" if fss == "Small" else "thorough")
    add_pdu("c06_bytes_misc", "directive_empty", "Small", [], None)
    add_pdu("c06_bytes_misc", "filedata_empty", "Small", [], None, filedata=True)
    add_pdu("c06_bytes_misc", "segdata_empty", "Large", [], None, filedata=True, seg=True)
    # CRC flag set, length field 0 / 1  (header.rs:395)
    for field in (0, 1):
        w = header(1, 1, 0, True, "Small", False, False)
        w[1] = C(0)
        w[2] = C(field)
        add_dec("c06_bytes_misc", "crc_lenfield_%d" % field, "Pdu", w + [S, S, S], None)
    # datagram shorter than its length field says
    w = header(1, 1, 9, False, "Small", False, False) + [C(0x06), S, S]
    add_dec("c06_bytes_misc", "short_datagram", "Pdu", w, None)
    # wider identifiers at datagram level
    for (we, ws) in ((2, 4), (8, 8), (4, 1)):
        t = [C(0x06), S, S]
        w, c = dgram("Small", t, t, we=we, ws=ws)
        add_dec("c06_canon_misc", "ack_e%d_s%d" % (we, ws), "Pdu", w, c)
    for (we, ws) in ((3, 1), (1, 6), (7, 7)):
        w = [C(0x20), C(0), C(3), C(((we - 1) << 4) | (ws - 1))] + [S] * (2 * we + ws) + [C(0x06), S, S]
        add_dec("c06_bytes_misc", "badwidth_e%d_s%d" % (we, ws), "Pdu", w, None)
    # CRC on: acceptance requires the CRC to match
    for (nm, p) in (("ack", [C(0x06), S, S]), ("eof_noerr", [C(0x04), C(0x00)] + [S] * 8),
                    ("prompt", [C(0x09), S])):
        w, c = dgram("Small", p, p, crc=True)
        add_dec("c06_canon_misc", "crc_" + nm, "Pdu", w, c)
    w, c = dgram("Small", [S] * 5, [S] * 5, crc=True, filedata=True)
    add_dec("c06_canon_misc", "crc_unseg1", "Pdu", w, c)
    add_trunc("c06_bytes_misc", "crc_trunc_ack", "Small", [C(0x06), S, S], crc=True)
    for c in classes:
        for k in ("c06_canon_", "c06_bytes_"):
            if not any(h["family"] == k + c for h in HARNESSES):
                del FAMILIES[k + c]


# ================================================================================================
# Emission
# ================================================================================================
STUBS = [("core::str::from_utf8", "crate::util::from_utf8_stub")]


def emit():
    hs = []
    ds = []
    hs.append("// @generated by /verif/kani/gen.py -- do not edit\n"
              "#![allow(non_snake_case)]\n")
    for h in HARNESSES:
        stubs = "".join("    #[kani::stub(%s, %s)]\n" % s for s in STUBS)
        hs.append("#[kani::proof]\n#[kani::unwind(%d)]\n%sfn %s() {\n"
                  "    let b: [u8; %d] = kani::any();\n"
                  "    let o = crate::dispatch::call_%s(&b);\n"
                  "    kani::cover!(o.is_pass(), \"check body reached its end\");\n%s}\n"
                  % (h["unwind"], stubs.replace("    #", "#"), h["name"], h["K"], h["name"],
                     "    kani::cover!(o.accepted(), \"a decoder accepted\");\n" if h["accept"] else ""))
    ds.append("// @generated by /verif/kani/gen.py -- do not edit\n"
              "#![allow(non_snake_case, unused_imports, clippy::all)]\n"
              "use crate::checks::{self, Dec, Fss, Pl, Tlv, Uo};\nuse crate::util::Outcome;\n")
    for h in HARNESSES:
        ds.append("pub fn call_%s(b: &[u8]) -> Outcome {\n    %s\n}\n" % (h["name"], h["call"]))
    ds.append("/// (harness name, number of input octets)\npub const HARNESSES: &[(&str, usize)] = &[")
    for h in HARNESSES:
        ds.append('    ("%s", %d),' % (h["name"], h["K"]))
    ds.append("];\n")
    ds.append("pub fn run(name: &str, b: &[u8]) -> Option<Outcome> {\n    Some(match name {")
    for h in HARNESSES:
        ds.append('        "%s" => call_%s(b),' % (h["name"], h["name"]))
    ds.append("        _ => return None,\n    })\n}\n")
    table = dict(families=FAMILIES, harnesses=HARNESSES, stubs=STUBS)
    outs = {"harnesses.rs": "\n".join(hs), "dispatch.rs": "\n".join(ds),
            "table.json": json.dumps(table, indent=1)}
    for fn, txt in outs.items():
        p = os.path.join(SRC, fn)
        old = open(p).read() if os.path.exists(p) else None
        if old != txt:
            with open(p, "w") as f:
                f.write(txt)
    return table


def build_table():
    if not HARNESSES:
        gen_c05()
        gen_c06()
    return dict(families=FAMILIES, harnesses=HARNESSES, stubs=STUBS)


if __name__ == "__main__":
    build_table()
    t = emit()
    by = {}
    for h in t["harnesses"]:
        k = (h["family"], h["tier"])
        by[k] = by.get(k, 0) + 1
    for f in t["families"]:
        print("%-22s %-8s quick=%-4d thorough=+%d" % (f, t["families"][f]["kind"],
                                                     by.get((f, "quick"), 0), by.get((f, "thorough"), 0)))
    print("total", len(t["harnesses"]))
