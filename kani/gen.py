#!/usr/bin/env python3
"""Generator for the C05 / C06 Kani harnesses of cfdp-core's PDU codec.

Writes  core/src/harnesses.rs  (one #[kani::proof] per concrete shape),
        core/src/dispatch.rs   (the same calls by name, for the native replay binary) and
        core/src/table.json    (family / harness table read by /verif/kani_run.py).

The wire format lives here as *layout functions*: each returns a template, a list of octets
(and, or) meaning  wire[i] = (pool[i] & and) | or .  (0, c) is the concrete octet c (type and
length octets), (0xff, 0) a free octet.  A layout returns two templates: the wire and its canonical
re-encoding (they differ when the wire carries octets the decoder ignores).  The concrete octets of
the canonical template are the "pins" the Rust checks assert on encode()'s output.
"""
import itertools
import json
import os
import sys

HERE = os.path.dirname(os.path.abspath(__file__))
SRC = os.path.join(HERE, "core", "src")

S = (0xFF, 0)          # free octet
A = (0x7F, 0)          # free ASCII octet


def C(v):
    assert 0 <= v <= 255, v
    return (0, v)


def pins_of(canon, base=0):
    return [(base + i, o) for i, (a, o) in enumerate(canon) if a == 0]


WIDTHS = (1, 2, 4, 8)


def fsz(fss):
    return 4 if fss == "Small" else 8


# ------------------------------------------------------------------------------------------------
# layouts (wire == canonical unless stated)
# ------------------------------------------------------------------------------------------------
def lv(n, kind=S):
    return [C(n)] + [kind] * n


def varid_enc(w):                       # VariableID::encode: (width-1) ++ value
    return [C(w - 1)] + [S] * w


def fsreq(l1, l2, kind=S):
    return [S] + lv(l1, kind) + lv(l2, kind)


def fsresp(l1, l2, lm, kind=S):
    return [S] + lv(l1, kind) + lv(l2, kind) + lv(lm)


def tlv(shape, kind=S):
    """Metadata TLV as cfdp-core encodes it (NB: no length octet after the type for requests,
    responses and fault handler overrides; that is the implementation's format)."""
    k = shape[0]
    if k == "FsReq":
        return [C(0x00)] + fsreq(shape[1], shape[2], kind)
    if k == "FsResp":
        return [C(0x01)] + fsresp(shape[1], shape[2], shape[3], kind)
    if k == "Msg":
        return [C(0x02)] + lv(shape[1])
    if k == "Fho":
        return [C(0x04), S]
    if k == "Flow":
        return [C(0x05)] + lv(shape[1])
    if k == "Eid":
        return [C(0x06)] + varid_enc(shape[1])
    raise ValueError(shape)


def tlv_rs(shape):
    k = shape[0]
    return "Tlv::%s%s" % (k, "(%s)" % ", ".join(map(str, shape[1:])) if len(shape) > 1 else "")


def tlv_name(shape):
    return shape[0].lower() + "".join(str(x) for x in shape[1:])


def payload(fss, p, kind=S):
    """PDU payload (directive code included).  Returns (wire, canon)."""
    k = p[0]
    f = fsz(fss)
    if k == "Eof":
        t = [C(0x04), S] + [S] * 4 + [S] * f
        if p[1] is not None:
            t += [C(0x06)] + varid_enc(p[1])
        return t, t
    if k == "Fin":
        t = [C(0x05), S]
        for (l1, l2, lm) in p[1]:
            body = fsresp(l1, l2, lm, kind)
            t += [C(0x01), C(len(body))] + body
        if p[3] is not None:
            t += [C(0x06)] + varid_enc(p[3])
        return t, t
    if k == "Ack":
        t = [C(0x06), S, S]
        return t, t
    if k == "Meta":
        t = [C(0x07), S] + [S] * f + lv(p[1], kind) + lv(p[2], kind)
        for o in p[3]:
            t += tlv(o, kind)
        return t, t
    if k == "Nak":
        t = [C(0x08)] + [S] * (2 * f) + [S] * (2 * f * p[1])
        return t, t
    if k == "Prompt":
        t = [C(0x09), S]
        return t, t
    if k == "KeepAlive":
        t = [C(0x0C)] + [S] * f
        return t, t
    if k == "Unseg":
        t = [S] * f + [S] * p[1]
        return t, t
    if k == "Seg":
        # first octet = record continuation state (2 bits) | metadata length (6 bits): the whole
        # octet must be concrete, so the continuation state is part of the shape (p[3]) when a
        # shape (p[3]).
        t = [C((p[3] << 6) | p[1])] + [S] * p[1] + [S] * f + [S] * p[2]
        return t, t
    raise ValueError(p)


def pl_rs(p):
    k = p[0]

    def opt(w):
        return "None" if w is None else "Some(%d)" % w
    if k == "Eof":
        return "Pl::Eof(%s)" % opt(p[1])
    if k == "Fin":
        return "Pl::Fin(&[%s], %s, %s)" % (
            ", ".join("(%d, %d, %d)" % r for r in p[1]), "true" if p[2] else "false", opt(p[3]))
    if k == "Meta":
        return "Pl::Meta(%d, %d, &[%s])" % (p[1], p[2], ", ".join(tlv_rs(o) for o in p[3]))
    if k == "Nak":
        return "Pl::Nak(%d)" % p[1]
    if k == "Unseg":
        return "Pl::Unseg(%d)" % p[1]
    if k == "Seg":
        return "Pl::Seg(%d, %d, %d)" % (p[1], p[2], p[3])
    return "Pl::%s" % k


def pl_name(p):
    k = p[0]

    def w(x):
        return "n" if x is None else "w%d" % x
    if k == "Eof":
        return "eof_" + w(p[1])
    if k == "Fin":
        return "fin_%s%s_%s" % ("e" if p[2] else "ok",
                                 "".join("_r%d%d%d" % r for r in p[1]), w(p[3]))
    if k == "Meta":
        return "meta_%d_%d%s" % (p[1], p[2], "".join("_" + tlv_name(o) for o in p[3]))
    if k == "Nak":
        return "nak%d" % p[1]
    if k == "Unseg":
        return "unseg%d" % p[1]
    if k == "Seg":
        return "seg%d_%d_s%d" % (p[1], p[2], p[3])
    return k.lower()


def pl_is_filedata(p):
    return p[0] in ("Unseg", "Seg")


def header(we, ws, plen, crc, fss, p_filedata, seg, segctl=0, first_free=False):
    """PDU header.  Octet 0 and octet 3 carry flags that decide how the rest is parsed, so both are
    fully concrete in a template (version 001, direction 0, mode 0).  For the constructive PDU
    check octet 0 is not pinned (first_free) because version/direction/mode are symbolic there."""
    b0 = (1 << 5) | ((1 if p_filedata else 0) << 4) | ((1 if crc else 0) << 1) | (1 if fss == "Large" else 0)
    field = plen + (2 if crc else 0)
    assert field <= 0xFFFF
    b3 = (segctl << 7) | ((we - 1) << 4) | ((1 if seg else 0) << 3) | (ws - 1)
    return [S if first_free else C(b0), C(field >> 8), C(field & 0xFF), C(b3)] + [S] * (we + ws + we)


def userop(u, kind=S):
    """Reserved CFDP user operation: "cfdp" ++ message type ++ body.  Returns (wire, canon)."""
    k = u[0]
    pre = [C(0x63), C(0x66), C(0x64), C(0x70)]

    def ids(we, ws):
        return [C(((we - 1) << 4) | (ws - 1))] + [S] * (we + ws)

    def with_len(body):
        return [C(len(body))] + body
    if k == "OrigTx":
        t = [C(0x0A)] + ids(u[1], u[2])
    elif k == "ProxyPut":
        t = [C(0x00), C(u[1])] + [S] * u[1] + lv(u[2], kind) + lv(u[3], kind)
    elif k == "ProxyMsg":
        t = [C(0x01)] + lv(u[1])
    elif k == "ProxyFsReq":
        t = [C(0x02)] + with_len(fsreq(u[1], u[2], kind))
    elif k == "ProxyFho":
        t = [C(0x03), S]
    elif k == "ProxyTm":
        t = [C(0x04), S]
    elif k == "ProxyFlow":
        t = [C(0x05)] + lv(u[1])
    elif k == "ProxySegCtrl":
        t = [C(0x06), S]
    elif k == "ProxyPutCancel":
        t = [C(0x09)]
    elif k == "RespProxyPut":
        t = [C(0x07), S]
    elif k == "RespFs":
        t = [C(0x08)] + with_len(fsresp(u[1], u[2], u[3], kind))
    elif k == "RespDirList":
        t = [C(0x11), S] + lv(u[1], kind) + lv(u[2], kind)
    elif k == "RespStatus":
        t = [C(0x21), S] + ids(u[1], u[2])
    elif k == "RespSuspend":
        t = [C(0x31), S] + ids(u[1], u[2])
    elif k == "RespResume":
        t = [C(0x39), S] + ids(u[1], u[2])
    elif k == "ReqDirList":
        t = [C(0x10)] + lv(u[1], kind) + lv(u[2], kind)
    elif k == "ReqStatus":
        t = [C(0x20)] + ids(u[1], u[2]) + lv(u[3], kind)
    elif k == "ReqSuspend":
        t = [C(0x30)] + ids(u[1], u[2])
    elif k == "ReqResume":
        t = [C(0x38)] + ids(u[1], u[2])
    elif k == "SfoRequest":      # label len, src width, dst width, name lens
        t = [C(0x40), S, S] + lv(u[1]) + [C(u[2])] + [S] * u[2] + [C(u[3])] + [S] * u[3] \
            + lv(u[4], kind) + lv(u[5], kind)
    elif k == "SfoMsg":
        t = [C(0x41)] + lv(u[1])
    elif k == "SfoFlow":
        t = [C(0x42)] + lv(u[1])
    elif k == "SfoFho":
        t = [C(0x43), S]
    elif k == "SfoFsReq":
        t = [C(0x44)] + with_len(fsreq(u[1], u[2], kind))
    elif k == "SfoReport":       # label len, src, dst, reporting widths
        t = [C(0x45)] + lv(u[1]) + [C(u[2])] + [S] * u[2] + [C(u[3])] + [S] * u[3] \
            + [C(u[4])] + [S] * u[4] + [S, S, S]
    elif k == "SfoFsResp":
        t = [C(0x46)] + with_len(fsresp(u[1], u[2], u[3], kind))
    else:
        raise ValueError(u)
    return pre + t, pre + t


def uo_rs(u):
    return "Uo::%s%s" % (u[0], "(%s)" % ", ".join(map(str, u[1:])) if len(u) > 1 else "")


def uo_name(u):
    return u[0].lower() + ("_" + "_".join(str(x) for x in u[1:]) if len(u) > 1 else "")


# ================================================================================================
# Harness table
# ================================================================================================
FAMILIES = {}      # name -> dict(property, kind, bound, doc)
HARNESSES = []     # dicts: name, family, K, unwind, call, accept, tier
_names = set()


def family(name, prop, kind, bound, doc):
    FAMILIES[name] = dict(property=prop, kind=kind, bound=bound, doc=doc)


def rs_pins(pins):
    return "&[%s]" % ", ".join("(%d, %d)" % p for p in pins)


def rs_tpl(t):
    return "&[%s]" % ", ".join("(0x%02x, 0x%02x)" % o for o in t)


def rs_guards(g):
    return "&[%s]" % ", ".join("(%d, 0x%02x, 0x%02x, %s)" % (a, b, c, "true" if d else "false")
                                for (a, b, c, d) in g)


def add(fam, name, K, call, unwind, accept=True, tier="quick"):
    assert fam in FAMILIES, fam
    full = fam + "__" + name
    assert full not in _names, full
    _names.add(full)
    HARNESSES.append(dict(name=full, family=fam, K=K, unwind=unwind, call=call,
                          accept=accept, tier=tier))


def unwind_for(n, pins=()):
    return max(10, n + 2, len(pins) + 2)


def add_rt(fam, name, fn_args, canon, tier="quick", slack=1):
    """constructive round trip: call = checks::<fn>(<args>, PINS, n, b)"""
    n = len(canon)
    pins = pins_of(canon)
    call = "checks::%s, %s, %d, b)" % (fn_args, rs_pins(pins), n)
    add(fam, name, n + slack, call, unwind_for(n, pins), True, tier)


def add_dec(fam, name, dec, wire, canon=None, guards=(), lax=False, accept=None, tier="quick"):
    """template-driven decode check"""
    K = len(wire)
    assert K <= 64, (name, K)
    if canon is None:
        c = "None"
        npins = 0
    else:
        pins = pins_of(canon)
        npins = len(pins)
        c = "Some((%d, %s))" % (len(canon), rs_pins(pins))
    call = "checks::c06_decode(Dec::%s, %s, %s, %s, %s, b)" % (
        dec, rs_tpl(wire), rs_guards(guards), c, "true" if lax else "false")
    if accept is None:
        accept = canon is not None
    add(fam, name, K, call, unwind_for(K, [0] * npins), accept, tier)


L_Q = (0, 1, 2)
FSS = ("Small", "Large")


def fs(fss):
    return "Fss::" + fss


def fl(fss):
    return fss[0].lower()


# ---------------------------------------------------------------------------------------------- C05
def gen_c05():
    family("c05_fixed", "C05", "complete", "",
           "fixed-layout values: VariableID, TransmissionMode, FaultHandlerOverride, "
           "SegmentRequestForm, EOF, ACK, Prompt, KeepAlive, NAK (0..2 requests; 3,4 thorough), "
           "EntityID/FaultHandlerOverride TLVs. One harness per width/flag shape; all value "
           "fields symbolic full width")
    for w in WIDTHS:
        add_rt("c05_fixed", "varid_w%d" % w, "c05_varid(%d" % w, varid_enc(w))
        add_rt("c05_fixed", "tlv_eid_w%d" % w, "c05_tlv(Tlv::Eid(%d), false" % w, tlv(("Eid", w)))
    add_rt("c05_fixed", "tmode", "c05_tmode(", [S])
    HARNESSES[-1]["call"] = HARNESSES[-1]["call"].replace("c05_tmode(, ", "c05_tmode(")
    add_rt("c05_fixed", "fho", "c05_tlv(Tlv::Fho, true", [S])
    add_rt("c05_fixed", "tlv_fho", "c05_tlv(Tlv::Fho, false", tlv(("Fho",)))
    for fss in FSS:
        add_rt("c05_fixed", "segreq_" + fl(fss), "c05_segreq(%s" % fs(fss), [S] * (2 * fsz(fss)))
        pls = [("Eof", None)] + [("Eof", w) for w in WIDTHS] + [("KeepAlive",)] \
            + [("Nak", n) for n in (0, 1, 2)]
        for p in pls:
            add_rt("c05_fixed", pl_name(p) + "_" + fl(fss),
                   "c05_payload(%s, %s" % (fs(fss), pl_rs(p)), payload(fss, p)[1])
        for n in (3, 4):
            p = ("Nak", n)
            if len(payload(fss, p)[1]) <= 64:
                add_rt("c05_fixed", pl_name(p) + "_" + fl(fss),
                       "c05_payload(%s, %s" % (fs(fss), pl_rs(p)), payload(fss, p)[1], "thorough")
    for p in (("Ack",), ("Prompt",)):
        add_rt("c05_fixed", pl_name(p), "c05_payload(Fss::Small, %s" % pl_rs(p),
               payload("Small", p)[1])

    family("c05_header", "C05", "complete", "",
           "PDUHeader for every (entity width, sequence width, segmentation control, segment "
           "metadata flag); version, type, direction, mode, CRC flag, file-size flag, the 16-bit "
           "length and all identifier values symbolic")
    for we in WIDTHS:
        for ws in WIDTHS:
            for segctl in (0, 1):
                for seg in (0, 1):
                    t = header(we, ws, 0, False, "Small", False, seg, segctl)
                    t[0] = S
                    t[1] = S
                    t[2] = S
                    tier = "quick" if (segctl, seg) in ((0, 0), (1, 1)) or we == ws else "thorough"
                    add_rt("c05_header", "e%d_s%d_c%d_m%d" % (we, ws, segctl, seg),
                           "c05_header(%d, %d, %s, %s" % (we, ws, "true" if segctl else "false",
                                                         "true" if seg else "false"), t, tier, 0)

    family("c05_var", "C05", "bounded",
           "string / TLV body / list lengths in {0,1,2} (quick), plus 3, 255-octet bodies and "
           "63-octet segment metadata (thorough); file names ASCII",
           "FlowLabel, MessageToUser, FileStoreRequest/Response (standalone and as TLV), "
           "Finished, Metadata, FileData (both kinds)")
    for n in (0, 1, 2, 3, 255):
        tier = "quick" if n in L_Q else "thorough"
        for k in ("Flow", "Msg"):
            add_rt("c05_var", "tlv_%s%d" % (k.lower(), n), "c05_tlv(Tlv::%s(%d), false" % (k, n),
                   tlv((k, n)), tier)
            add_rt("c05_var", "%s%d" % (k.lower(), n), "c05_tlv(Tlv::%s(%d), true" % (k, n),
                   tlv((k, n))[1:], tier)
    for l1 in (0, 1, 2, 3):
        for l2 in (0, 1, 2, 3):
            tier = "quick" if l1 in L_Q and l2 in L_Q else "thorough"
            add_rt("c05_var", "tlv_fsreq%d%d" % (l1, l2),
                   "c05_tlv(Tlv::FsReq(%d, %d), false" % (l1, l2), tlv(("FsReq", l1, l2)), tier)
            if l1 == l2:
                add_rt("c05_var", "fsreq%d%d" % (l1, l2),
                       "c05_tlv(Tlv::FsReq(%d, %d), true" % (l1, l2), tlv(("FsReq", l1, l2))[1:], tier)
            for lm in (0, 1, 2, 3):
                tier2 = "quick" if tier == "quick" and lm in L_Q else "thorough"
                if 3 in (l1, l2, lm) and not (l1 == l2 == lm or (l1, l2, lm) in ((3, 0, 1), (0, 3, 2), (1, 2, 3))):
                    continue
                add_rt("c05_var", "tlv_fsresp%d%d%d" % (l1, l2, lm),
                       "c05_tlv(Tlv::FsResp(%d, %d, %d), false" % (l1, l2, lm),
                       tlv(("FsResp", l1, l2, lm)), tier2)
                if l1 == l2 == lm:
                    add_rt("c05_var", "fsresp%d%d%d" % (l1, l2, lm),
                           "c05_tlv(Tlv::FsResp(%d, %d, %d), true" % (l1, l2, lm),
                           tlv(("FsResp", l1, l2, lm))[1:], tier2)
    add_rt("c05_var", "tlv_fsreq_255_0", "c05_tlv(Tlv::FsReq(255, 0), false", tlv(("FsReq", 255, 0)),
           "thorough")
    add_rt("c05_var", "tlv_fsresp_0_0_255", "c05_tlv(Tlv::FsResp(0, 0, 255), false",
           tlv(("FsResp", 0, 0, 255)), "thorough")
    # Finished
    rlists_q = [(), ((1, 0, 2),), ((0, 2, 1),), ((2, 2, 2),), ((1, 1, 0), (0, 1, 1)),
                ((2, 0, 1), (1, 2, 0))]
    rlists_t = [((3, 3, 3),), ((0, 0, 0), (1, 1, 1), (2, 2, 2)), ((3, 0, 1), (0, 3, 0), (1, 0, 3))]
    conds = [(False, None), (True, None)] + [(True, w) for w in WIDTHS]
    for rl in rlists_q + rlists_t:
        for (err, fw) in conds:
            p = ("Fin", rl, err, fw)
            canon = payload("Small", p, A)[1]
            if len(canon) > 64:
                continue
            tier = "quick" if rl in rlists_q and (fw in (None, 2) or len(rl) <= 1) else "thorough"
            add_rt("c05_var", pl_name(p), "c05_payload(Fss::Small, %s" % pl_rs(p), canon, tier)
    # Metadata
    opts_q = [(), (("Msg", 1),), (("Fho",),), (("Flow", 2),), (("Eid", 4),), (("FsReq", 1, 1),),
              (("FsResp", 1, 0, 1),), (("Msg", 2), ("Fho",)), (("Flow", 1), ("Eid", 2))]
    opts_t = [(("Msg", 0), ("Flow", 0), ("Eid", 1)), (("FsReq", 2, 0), ("FsResp", 0, 2, 2)),
              (("Eid", 8), ("Msg", 3), ("Fho",)), (("Fho",), ("Fho",), ("Fho",))]
    for fss in FSS:
        for (ls, ld) in ((1, 2), (0, 0), (2, 1), (2, 2), (3, 3), (0, 3)):
            for o in opts_q + opts_t:
                if (ls, ld) != (1, 2) and o != ():
                    continue
                p = ("Meta", ls, ld, o)
                tier = "quick" if o in opts_q and 3 not in (ls, ld) else "thorough"
                add_rt("c05_var", pl_name(p) + "_" + fl(fss),
                       "c05_payload(%s, %s" % (fs(fss), pl_rs(p)), payload(fss, p, A)[1], tier)
        for n in (0, 1, 2, 3):
            p = ("Unseg", n)
            add_rt("c05_var", pl_name(p) + "_" + fl(fss),
                   "c05_payload(%s, %s" % (fs(fss), pl_rs(p)), payload(fss, p)[1],
                   "quick" if n in L_Q else "thorough")
        for r in (0, 1, 2, 3):
            for (m, n) in ((0, 1), (1, 1), (2, 1), (1, 0), (2, 2), (3, 3), (63, 1)):
                if (m, n) in ((1, 0), (2, 2)) and r != 3:
                    continue
                p = ("Seg", m, n, r)
                tier = "quick" if max(m, n) <= 2 else "thorough"
                if m == 63 and (r != 1):
                    continue
                add_rt("c05_var", pl_name(p) + "_" + fl(fss),
                       "c05_payload(%s, %s" % (fs(fss), pl_rs(p)), payload(fss, p)[1], tier)

    family("c05_userops", "C05", "bounded",
           "every identifier width combination (complete for the identifier-only kinds); string / "
           "body lengths in {0,1,2}; SFORequest / SFOReport / ProxySegmentationControl have "
           "private fields and are proved from the decoder side only",
           "all 26 reserved CFDP user operations")
    two_ids = ["OrigTx", "RespStatus", "RespResume", "RespSuspend", "ReqSuspend", "ReqResume"]
    for k in two_ids:
        for we in WIDTHS:
            for ws in WIDTHS:
                u = (k, we, ws)
                add_rt("c05_userops", uo_name(u), "c05_userop(%s" % uo_rs(u), userop(u)[1])
    for we in WIDTHS:
        for ws in WIDTHS:
            for l in ((1,) if (we, ws) != (1, 1) else (0, 1, 2)):
                u = ("ReqStatus", we, ws, l)
                add_rt("c05_userops", uo_name(u), "c05_userop(%s" % uo_rs(u), userop(u, A)[1])
    for w in WIDTHS:
        for (l1, l2) in (((1, 2),) if w != 2 else ((1, 2), (0, 0), (2, 1))):
            u = ("ProxyPut", w, l1, l2)
            add_rt("c05_userops", uo_name(u), "c05_userop(%s" % uo_rs(u), userop(u, A)[1])
    for k in ("ProxyMsg", "ProxyFlow", "SfoMsg", "SfoFlow"):
        for n in L_Q:
            u = (k, n)
            add_rt("c05_userops", uo_name(u), "c05_userop(%s" % uo_rs(u), userop(u)[1])
    for k in ("ProxyFho", "ProxyTm", "ProxyPutCancel", "RespProxyPut", "SfoFho"):
        u = (k,)
        add_rt("c05_userops", uo_name(u), "c05_userop(%s" % uo_rs(u), userop(u)[1])
    for k in ("ProxyFsReq", "SfoFsReq", "RespDirList", "ReqDirList"):
        for (l1, l2) in ((0, 0), (1, 2), (2, 1), (2, 2), (0, 1)):
            u = (k, l1, l2)
            add_rt("c05_userops", uo_name(u), "c05_userop(%s" % uo_rs(u), userop(u, A)[1])
    for k in ("RespFs", "SfoFsResp"):
        for (l1, l2, lm) in ((0, 0, 0), (1, 2, 0), (2, 1, 2), (0, 1, 1), (2, 2, 2)):
            u = (k, l1, l2, lm)
            add_rt("c05_userops", uo_name(u), "c05_userop(%s" % uo_rs(u), userop(u, A)[1])
    # decoder-side (private fields)
    u = ("ProxySegCtrl",)
    w, c = userop(u)
    add_dec("c05_userops", "dec_" + uo_name(u), "UserOp", w, c)
    for (ll, a, b, c3) in ((0, 1, 1, 1), (2, 2, 2, 2), (1, 4, 4, 4), (0, 8, 8, 8), (1, 1, 2, 4),
                           (2, 8, 4, 2), (1, 2, 8, 1)):
        u = ("SfoReport", ll, a, b, c3)
        w, c = userop(u)
        add_dec("c05_userops", "dec_" + uo_name(u), "UserOp", w, c)
    for (ll, a, b, l1, l2) in ((0, 1, 1, 0, 0), (1, 2, 4, 1, 1), (2, 8, 8, 1, 0), (0, 4, 2, 0, 1),
                               (1, 4, 8, 1, 1), (1, 1, 2, 1, 1)):
        u = ("SfoRequest", ll, a, b, l1, l2)
        w, c = userop(u, A)
        add_dec("c05_userops", "dec_" + uo_name(u), "UserOp", w, c)

    family("c05_pdu", "C05", "bounded",
           "payload shapes as listed in the harness names; identifier widths (1,1) (2,4) (4,2) "
           "(8,8) rotated over the payload kinds in the quick tier, all four for each in thorough",
           "whole PDU (header ++ payload ++ CRC) through PDU::encode/decode, CRC on and off, "
           "small and large file-size encodings")
    kinds = [("Eof", None), ("Eof", 2), ("Ack",), ("KeepAlive",), ("Nak", 1), ("Prompt",),
             ("Unseg", 2), ("Seg", 1, 1, 2), ("Meta", 1, 1, (("Fho",),)),
             ("Fin", ((1, 0, 1),), True, 1)]
    wcombos = [(1, 1), (2, 4), (4, 2), (8, 8)]
    i = 0
    for p in kinds:
        for crc in (0, 1):
            for fss in FSS:
                for j, (we, ws) in enumerate(wcombos):
                    pw, pc = payload(fss, p, A)
                    segctl = (i + j) & 1
                    h = header(we, ws, len(pc), crc, fss, pl_is_filedata(p), p[0] == "Seg", segctl,
                               first_free=True)
                    canon = h + pc + ([S, S] if crc else [])
                    if len(canon) > 64:
                        continue
                    tier = "quick" if j == i % 4 else "thorough"
                    add_rt("c05_pdu", "%s_%s_crc%d_e%d_s%d" % (pl_name(p), fl(fss), crc, we, ws),
                           "c05_pdu(%d, %d, %s, %s, %s, %s" % (
                               we, ws, "true" if crc else "false", "true" if segctl else "false",
                               fs(fss), pl_rs(p)), canon, tier)
                i += 1

    family("c05_report", "C05", "complete", "",
           "daemon::Report for every identifier width pair; state, status, condition symbolic")
    for we in WIDTHS:
        for ws in WIDTHS:
            add_rt("c05_report", "e%d_s%d" % (we, ws), "c05_report(%d, %d" % (we, ws),
                   varid_enc(we) + varid_enc(ws) + [S, S, S])
