//! The C05 / C06 check functions.
//!
//! One generic function per obligation *scheme*, instantiated per codec type through the
//! [`Codec`] / [`Build`] traits.  The concrete shape (identifier widths, flags, string / list
//! lengths, TLV layout) arrives as ordinary arguments that are literals in the generated harness
//! (see gen.py), so that under Kani every length is concrete and only value octets -- taken from
//! the single K-octet input `v` -- are symbolic.
//!
//! Kani/CBMC cost rules this file obeys (all measured, see README):
//!  * never move a value out of an `Option`/`Result`/enum when its lengths matter afterwards:
//!    Kani encodes enum payloads as a union and CBMC loses every constant stored in it.  Builders
//!    therefore return `(value, valid)` tuples and results are inspected by reference;
//!  * a decoder only ever runs on a `Wire` whose length-determining octets are pinned constants;
//!  * each check is monomorphic in the codec type, so that a harness's goto program contains only
//!    that type's codec.

use crate::util::*;
#[allow(unused_imports)]
use crate::{vcheck, vskip};
use camino::Utf8PathBuf;
use cfdp_core::daemon::Report;
use cfdp_core::pdu::*;
use cfdp_core::transaction::TransactionID;

pub use cfdp_core::pdu::FileSizeFlag as Fss;

// =============================================================================================
// Codec: uniform view of every encoder / decoder pair of cfdp-core
// =============================================================================================
pub trait Codec: Sized {
    /// decoding context (file-size flag, segment metadata flag ...)
    type Ctx: Copy;
    fn dec(c: Self::Ctx, s: &mut &[u8]) -> PDUResult<Self>;
    /// `self.clone().encode(..)`
    fn enc(&self, c: Self::Ctx) -> Vec<u8>;
    /// what `encoded_len` promises for `enc().len()` (None: the type has no encoded_len)
    fn elen(&self, c: Self::Ctx) -> Option<usize>;
    /// structural equality, file names compared as strings
    fn same(&self, o: &Self) -> bool;
    /// canonicalisation applied before re-encoding (only PDU: recompute the length field)
    fn canon(&mut self) {}
}

macro_rules! codec_plain {
    ($t:ty, $same:expr) => {
        impl Codec for $t {
            type Ctx = ();
            fn dec(_c: (), s: &mut &[u8]) -> PDUResult<Self> {
                <$t as PDUEncode>::decode(s)
            }
            fn enc(&self, _c: ()) -> Vec<u8> {
                PDUEncode::encode(self.clone())
            }
            fn elen(&self, _c: ()) -> Option<usize> {
                Some(PDUEncode::encoded_len(self) as usize)
            }
            fn same(&self, o: &Self) -> bool {
                $same(self, o)
            }
        }
    };
}
macro_rules! codec_fss {
    ($t:ty, $same:expr) => {
        impl Codec for $t {
            type Ctx = Fss;
            fn dec(c: Fss, s: &mut &[u8]) -> PDUResult<Self> {
                <$t as FSSEncode>::decode(s, c)
            }
            fn enc(&self, c: Fss) -> Vec<u8> {
                FSSEncode::encode(self.clone(), c)
            }
            fn elen(&self, c: Fss) -> Option<usize> {
                Some(FSSEncode::encoded_len(self, c) as usize)
            }
            fn same(&self, o: &Self) -> bool {
                $same(self, o)
            }
        }
    };
}
fn eq_d<T: PartialEq>(a: &T, b: &T) -> bool {
    a == b
}

codec_plain!(TransmissionMode, eq_d);
codec_plain!(FaultHandlerOverride, eq_d);
codec_plain!(FlowLabel, eq_d);
codec_plain!(MessageToUser, eq_d);
codec_plain!(FileStoreRequest, eq_fsreq);
codec_plain!(FileStoreResponse, eq_fsresp);
codec_plain!(MetadataTLV, eq_tlv);
codec_plain!(Finished, eq_finished);
codec_plain!(PositiveAcknowledgePDU, eq_d);
codec_plain!(PromptPDU, eq_d);
codec_plain!(PDUHeader, eq_d);
codec_plain!(UserOperation, eq_userop);
codec_plain!(OriginatingTransactionIDMessage, eq_d);
codec_plain!(ProxyPutResponse, eq_d);
codec_plain!(ProxySegmentationControl, eq_d);
codec_plain!(RemoteStatusReportResponse, eq_d);
codec_plain!(RemoteSuspendRequest, eq_d);
codec_plain!(RemoteSuspendResponse, eq_d);
codec_plain!(RemoteResumeRequest, eq_d);
codec_plain!(RemoteResumeResponse, eq_d);
codec_plain!(SFOReport, eq_d);
// SFORequest has private path fields: only the derived (path component) equality is available
codec_plain!(SFORequest, eq_d);
codec_plain!(ProxyPutRequest, |a: &ProxyPutRequest, b: &ProxyPutRequest| a
    .destination_entity_id
    == b.destination_entity_id
    && eq_path(&a.source_filename, &b.source_filename)
    && eq_path(&a.destination_filename, &b.destination_filename));
codec_plain!(
    DirectoryListingRequest,
    |a: &DirectoryListingRequest, b: &DirectoryListingRequest| eq_path(
        &a.directory_name,
        &b.directory_name
    ) && eq_path(&a.directory_filename, &b.directory_filename)
);
codec_plain!(
    DirectoryListingResponse,
    |a: &DirectoryListingResponse, b: &DirectoryListingResponse| a.response_code
        == b.response_code
        && eq_path(&a.directory_name, &b.directory_name)
        && eq_path(&a.directory_filename, &b.directory_filename)
);
codec_plain!(
    RemoteStatusReportRequest,
    |a: &RemoteStatusReportRequest, b: &RemoteStatusReportRequest| a.source_entity_id
        == b.source_entity_id
        && a.transaction_sequence_number == b.transaction_sequence_number
        && eq_path(&a.report_filename, &b.report_filename)
);

codec_fss!(SegmentRequestForm, eq_d);
codec_fss!(EndOfFile, eq_d);
codec_fss!(MetadataPDU, eq_metadata);
codec_fss!(NegativeAcknowledgmentPDU, eq_d);
codec_fss!(KeepAlivePDU, eq_d);
codec_fss!(UnsegmentedFileData, eq_d);
codec_fss!(SegmentedFileData, eq_d);
codec_fss!(Operations, eq_ops);

impl Codec for VariableID {
    type Ctx = ();
    fn dec(_c: (), s: &mut &[u8]) -> PDUResult<Self> {
        VariableID::decode(s)
    }
    fn enc(&self, _c: ()) -> Vec<u8> {
        self.encode()
    }
    /// NB VariableID::encoded_len() is the width of the value; encode() prepends a length octet.
    fn elen(&self, _c: ()) -> Option<usize> {
        Some(self.encoded_len() as usize + 1)
    }
    fn same(&self, o: &Self) -> bool {
        self == o
    }
}

/// `read_length_value_pair` (no encoder in the crate; its inverse is the LV form)
pub struct Lv(pub Vec<u8>);
impl Codec for Lv {
    type Ctx = ();
    fn dec(_c: (), s: &mut &[u8]) -> PDUResult<Self> {
        Ok(Lv(read_length_value_pair(s)?))
    }
    fn enc(&self, _c: ()) -> Vec<u8> {
        let mut e = vec![self.0.len() as u8];
        e.extend_from_slice(&self.0);
        e
    }
    fn elen(&self, _c: ()) -> Option<usize> {
        None
    }
    fn same(&self, o: &Self) -> bool {
        self.0 == o.0
    }
}

impl Codec for Report {
    type Ctx = ();
    fn dec(_c: (), s: &mut &[u8]) -> PDUResult<Self> {
        Report::decode(s)
    }
    fn enc(&self, _c: ()) -> Vec<u8> {
        self.clone().encode()
    }
    fn elen(&self, _c: ()) -> Option<usize> {
        None
    }
    fn same(&self, b: &Self) -> bool {
        self.id == b.id
            && self.state == b.state
            && self.status == b.status
            && self.condition == b.condition
    }
}

/// FileDataPDU: ctx = (file-size flag, segment metadata present)
impl Codec for FileDataPDU {
    type Ctx = (Fss, bool);
    fn dec(c: Self::Ctx, s: &mut &[u8]) -> PDUResult<Self> {
        FileDataPDU::decode(s, seg_flag(c.1), c.0)
    }
    fn enc(&self, c: Self::Ctx) -> Vec<u8> {
        self.clone().encode(c.0)
    }
    fn elen(&self, c: Self::Ctx) -> Option<usize> {
        Some(self.encoded_len(c.0) as usize)
    }
    fn same(&self, o: &Self) -> bool {
        self == o
    }
}
/// PDUPayload: ctx = (is file data, file-size flag, segment metadata present)
impl Codec for PDUPayload {
    type Ctx = (bool, Fss, bool);
    fn dec(c: Self::Ctx, s: &mut &[u8]) -> PDUResult<Self> {
        let t = if c.0 {
            PDUType::FileData
        } else {
            PDUType::FileDirective
        };
        PDUPayload::decode(s, t, c.1, seg_flag(c.2))
    }
    fn enc(&self, c: Self::Ctx) -> Vec<u8> {
        self.clone().encode(c.1)
    }
    fn elen(&self, c: Self::Ctx) -> Option<usize> {
        Some(self.encoded_len(c.1) as usize)
    }
    fn same(&self, o: &Self) -> bool {
        eq_payload(self, o)
    }
}
/// Whole PDU.  NB PDU::encoded_len() does not count the two CRC octets; the obligation is
/// encoded_len + (2 if CRC) == encode().len().  Canonical form: the length field is recomputed
/// from the payload (C06 statement).
impl Codec for PDU {
    type Ctx = ();
    fn dec(_c: (), s: &mut &[u8]) -> PDUResult<Self> {
        PDU::decode(s)
    }
    fn enc(&self, _c: ()) -> Vec<u8> {
        self.clone().encode()
    }
    fn elen(&self, _c: ()) -> Option<usize> {
        let extra = match self.header.crc_flag {
            CRCFlag::Present => 2,
            CRCFlag::NotPresent => 0,
        };
        Some(self.encoded_len() as usize + extra)
    }
    fn same(&self, o: &Self) -> bool {
        eq_pdu(self, o)
    }
    fn canon(&mut self) {
        self.header.pdu_data_field_length = self.payload.encoded_len(self.header.large_file_flag);
    }
}
fn seg_flag(b: bool) -> SegmentedData {
    if b {
        SegmentedData::Present
    } else {
        SegmentedData::NotPresent
    }
}

// =============================================================================================
// Build: shape + pool -> value.  `valid == false` <=> pool octets outside the shape (harness
// skips); the returned value is then an arbitrary placeholder.
// =============================================================================================
pub trait Build: Codec {
    type Shape: Copy;
    fn build(s: &mut Src, c: Self::Ctx, sh: Self::Shape) -> (Self, bool);
}

fn cond_of(n: u8, valid: &mut bool) -> Condition {
    match condition(n) {
        Some(c) => c,
        None => {
            *valid = false;
            Condition::NoError
        }
    }
}

impl Build for VariableID {
    type Shape = usize;
    fn build(s: &mut Src, _c: (), w: usize) -> (Self, bool) {
        (s.varid(w), true)
    }
}
impl Build for TransmissionMode {
    type Shape = ();
    fn build(s: &mut Src, _c: (), _sh: ()) -> (Self, bool) {
        (tmode(s.bool()), true)
    }
}
impl Build for FaultHandlerOverride {
    type Shape = ();
    fn build(s: &mut Src, _c: (), _sh: ()) -> (Self, bool) {
        match handler_code(s.u8() & 0x07) {
            Some(c) => (
                FaultHandlerOverride {
                    fault_handler_code: c,
                },
                true,
            ),
            None => (
                FaultHandlerOverride {
                    fault_handler_code: HandlerCode::IgnoreError,
                },
                false,
            ),
        }
    }
}
impl Build for FlowLabel {
    type Shape = usize;
    fn build(s: &mut Src, _c: (), n: usize) -> (Self, bool) {
        (FlowLabel { value: s.bytes(n) }, true)
    }
}
impl Build for MessageToUser {
    type Shape = usize;
    fn build(s: &mut Src, _c: (), n: usize) -> (Self, bool) {
        (
            MessageToUser {
                message_text: s.bytes(n),
            },
            true,
        )
    }
}
impl Build for FileStoreRequest {
    type Shape = (usize, usize);
    fn build(s: &mut Src, _c: (), sh: (usize, usize)) -> (Self, bool) {
        let (a, valid) = match fs_action(s.u8() & 0x0f) {
            Some(a) => (a, true),
            None => (FileStoreAction::CreateFile, false),
        };
        (
            FileStoreRequest {
                action_code: a,
                first_filename: s.path(sh.0),
                second_filename: s.path(sh.1),
            },
            valid,
        )
    }
}
impl Build for FileStoreResponse {
    type Shape = (usize, usize, usize);
    fn build(s: &mut Src, _c: (), sh: (usize, usize, usize)) -> (Self, bool) {
        let b = s.u8();
        let (st, valid) = match fs_status(b >> 4, b & 0x0f) {
            Some(a) => (a, true),
            None => (FileStoreStatus::CreateFile(CreateFileStatus::Successful), false),
        };
        (
            FileStoreResponse {
                action_and_status: st,
                first_filename: s.path(sh.0),
                second_filename: s.path(sh.1),
                filestore_message: s.bytes(sh.2),
            },
            valid,
        )
    }
}
impl Build for SegmentRequestForm {
    type Shape = ();
    fn build(s: &mut Src, c: Fss, _sh: ()) -> (Self, bool) {
        (
            SegmentRequestForm {
                start_offset: s.fss(c),
                end_offset: s.fss(c),
            },
            true,
        )
    }
}
/// shape: fault location width (None <=> condition == NoError; wire-format well-formedness)
impl Build for EndOfFile {
    type Shape = Option<usize>;
    fn build(s: &mut Src, c: Fss, fault: Option<usize>) -> (Self, bool) {
        let mut valid = true;
        let cond = cond_of(s.u8() & 0x0f, &mut valid);
        if (cond == Condition::NoError) != fault.is_none() {
            valid = false;
        }
        (
            EndOfFile {
                condition: cond,
                checksum: s.u32(),
                file_size: s.fss(c),
                fault_location: match fault {
                    Some(w) => Some(s.varid(w)),
                    None => None,
                },
            },
            valid,
        )
    }
}
/// shape: filestore responses (l1, l2, lmsg); condition != NoError; fault location width
/// (a fault location is only allowed when condition != NoError)
impl Build for Finished {
    type Shape = (&'static [(usize, usize, usize)], bool, Option<usize>);
    fn build(s: &mut Src, _c: (), sh: Self::Shape) -> (Self, bool) {
        let (resps, err, fault) = sh;
        let mut valid = true;
        let b = s.u8();
        let cond = cond_of(b & 0x0f, &mut valid);
        if (cond != Condition::NoError) != err {
            valid = false;
        }
        let mut filestore_response = Vec::with_capacity(resps.len());
        let mut i = 0;
        while i < resps.len() {
            let (r, ok) = FileStoreResponse::build(s, (), resps[i]);
            if !ok {
                valid = false;
            }
            filestore_response.push(r);
            i += 1;
        }
        (
            Finished {
                condition: cond,
                delivery_code: delivery(b & 0x10 != 0),
                file_status: file_status(b >> 5),
                filestore_response,
                fault_location: match fault {
                    Some(w) => Some(s.varid(w)),
                    None => None,
                },
            },
            valid,
        )
    }
}
/// "Only valid for EoF and Finished directives"; EoF pairs with Other, Finished with Finished.
impl Build for PositiveAcknowledgePDU {
    type Shape = ();
    fn build(s: &mut Src, _c: (), _sh: ()) -> (Self, bool) {
        let b = s.u8();
        let mut valid = true;
        let (directive, directive_subtype_code) = if b & 0x10 != 0 {
            (PDUDirective::Finished, ACKSubDirective::Finished)
        } else {
            (PDUDirective::EoF, ACKSubDirective::Other)
        };
        (
            PositiveAcknowledgePDU {
                directive,
                directive_subtype_code,
                condition: cond_of(b & 0x0f, &mut valid),
                transaction_status: tx_status(b >> 5),
            },
            valid,
        )
    }
}
/// Shape of a Metadata TLV (string lengths / id width).
#[derive(Clone, Copy, Debug)]
pub enum Tlv {
    FsReq(usize, usize),
    FsResp(usize, usize, usize),
    Msg(usize),
    Fho,
    Flow(usize),
    Eid(usize),
}
impl Build for MetadataTLV {
    type Shape = Tlv;
    fn build(s: &mut Src, _c: (), t: Tlv) -> (Self, bool) {
        match t {
            Tlv::FsReq(a, b) => {
                let (x, ok) = FileStoreRequest::build(s, (), (a, b));
                (MetadataTLV::FileStoreRequest(x), ok)
            }
            Tlv::FsResp(a, b, c) => {
                let (x, ok) = FileStoreResponse::build(s, (), (a, b, c));
                (MetadataTLV::FileStoreResponse(x), ok)
            }
            Tlv::Msg(n) => (
                MetadataTLV::MessageToUser(MessageToUser {
                    message_text: s.bytes(n),
                }),
                true,
            ),
            Tlv::Fho => {
                let (x, ok) = FaultHandlerOverride::build(s, (), ());
                (MetadataTLV::FaultHandlerOverride(x), ok)
            }
            Tlv::Flow(n) => (MetadataTLV::FlowLabel(FlowLabel { value: s.bytes(n) }), true),
            Tlv::Eid(w) => (MetadataTLV::EntityID(s.varid(w)), true),
        }
    }
}
/// shape: source name length, destination name length, options
impl Build for MetadataPDU {
    type Shape = (usize, usize, &'static [Tlv]);
    fn build(s: &mut Src, c: Fss, sh: Self::Shape) -> (Self, bool) {
        let (ls, ld, opts) = sh;
        let mut valid = true;
        let b = s.u8();
        let file_size = s.fss(c);
        let source_filename = s.path(ls);
        let destination_filename = s.path(ld);
        let mut options = Vec::with_capacity(opts.len());
        let mut i = 0;
        while i < opts.len() {
            let (o, ok) = MetadataTLV::build(s, (), opts[i]);
            if !ok {
                valid = false;
            }
            options.push(o);
            i += 1;
        }
        (
            MetadataPDU {
                closure_requested: b & 1 != 0,
                checksum_type: checksum_type(b & 2 != 0),
                file_size,
                source_filename,
                destination_filename,
                options,
            },
            valid,
        )
    }
}
/// shape: number of segment requests
impl Build for NegativeAcknowledgmentPDU {
    type Shape = usize;
    fn build(s: &mut Src, c: Fss, n: usize) -> (Self, bool) {
        let start_of_scope = s.fss(c);
        let end_of_scope = s.fss(c);
        let mut segment_requests = Vec::with_capacity(n);
        for _ in 0..n {
            segment_requests.push(SegmentRequestForm {
                start_offset: s.fss(c),
                end_offset: s.fss(c),
            });
        }
        (
            NegativeAcknowledgmentPDU {
                start_of_scope,
                end_of_scope,
                segment_requests,
            },
            true,
        )
    }
}
impl Build for PromptPDU {
    type Shape = ();
    fn build(s: &mut Src, _c: (), _sh: ()) -> (Self, bool) {
        (
            PromptPDU {
                nak_or_keep_alive: if s.bool() {
                    NakOrKeepAlive::KeepAlive
                } else {
                    NakOrKeepAlive::Nak
                },
            },
            true,
        )
    }
}
impl Build for KeepAlivePDU {
    type Shape = ();
    fn build(s: &mut Src, c: Fss, _sh: ()) -> (Self, bool) {
        (KeepAlivePDU { progress: s.fss(c) }, true)
    }
}
/// shape: file data length
impl Build for UnsegmentedFileData {
    type Shape = usize;
    fn build(s: &mut Src, c: Fss, n: usize) -> (Self, bool) {
        (
            UnsegmentedFileData {
                offset: s.fss(c),
                file_data: s.bytes(n),
            },
            true,
        )
    }
}
/// shape: segment metadata length (<= 63), file data length, record continuation state (it shares
/// the first octet with the metadata length, so it is shape)
impl Build for SegmentedFileData {
    type Shape = (usize, usize, u8);
    fn build(s: &mut Src, c: Fss, sh: Self::Shape) -> (Self, bool) {
        (
            SegmentedFileData {
                record_continuation_state: rcs(sh.2),
                segment_metadata: s.bytes(sh.0),
                offset: s.fss(c),
                file_data: s.bytes(sh.1),
            },
            true,
        )
    }
}
/// Shape of a PDU payload.
#[derive(Clone, Copy, Debug)]
pub enum Pl {
    Eof(Option<usize>),
    Fin(&'static [(usize, usize, usize)], bool, Option<usize>),
    Ack,
    Meta(usize, usize, &'static [Tlv]),
    Nak(usize),
    Prompt,
    KeepAlive,
    Unseg(usize),
    Seg(usize, usize, u8),
}
impl Build for Operations {
    type Shape = Pl;
    fn build(s: &mut Src, c: Fss, p: Pl) -> (Self, bool) {
        match p {
            Pl::Eof(f) => {
                let (x, ok) = EndOfFile::build(s, c, f);
                (Operations::EoF(x), ok)
            }
            Pl::Fin(r, e, f) => {
                let (x, ok) = Finished::build(s, (), (r, e, f));
                (Operations::Finished(x), ok)
            }
            Pl::Ack => {
                let (x, ok) = PositiveAcknowledgePDU::build(s, (), ());
                (Operations::Ack(x), ok)
            }
            Pl::Meta(a, b, o) => {
                let (x, ok) = MetadataPDU::build(s, c, (a, b, o));
                (Operations::Metadata(x), ok)
            }
            Pl::Nak(n) => {
                let (x, ok) = NegativeAcknowledgmentPDU::build(s, c, n);
                (Operations::Nak(x), ok)
            }
            Pl::Prompt => {
                let (x, ok) = PromptPDU::build(s, (), ());
                (Operations::Prompt(x), ok)
            }
            _ => {
                let (x, ok) = KeepAlivePDU::build(s, c, ());
                (Operations::KeepAlive(x), ok)
            }
        }
    }
}
impl Build for FileDataPDU {
    type Shape = Pl;
    fn build(s: &mut Src, c: (Fss, bool), p: Pl) -> (Self, bool) {
        match p {
            Pl::Seg(m, n, r) => {
                let (x, ok) = SegmentedFileData::build(s, c.0, (m, n, r));
                (FileDataPDU::Segmented(x), ok)
            }
            Pl::Unseg(n) => {
                let (x, ok) = UnsegmentedFileData::build(s, c.0, n);
                (FileDataPDU::Unsegmented(x), ok)
            }
            _ => {
                let (x, _) = UnsegmentedFileData::build(s, c.0, 0);
                (FileDataPDU::Unsegmented(x), false)
            }
        }
    }
}
impl Build for PDUPayload {
    type Shape = Pl;
    fn build(s: &mut Src, c: (bool, Fss, bool), p: Pl) -> (Self, bool) {
        match p {
            Pl::Seg(..) | Pl::Unseg(..) => {
                let (x, ok) = FileDataPDU::build(s, (c.1, c.2), p);
                (PDUPayload::FileData(x), ok)
            }
            _ => {
                let (x, ok) = Operations::build(s, c.1, p);
                (PDUPayload::Directive(x), ok)
            }
        }
    }
}

/// PDUHeader.  shape: (entity width, sequence width, segmentation control, segment metadata flag):
/// all four share octet 3.  Version, type, direction, mode, CRC flag, file-size flag, the full
/// 16-bit length and the identifiers are symbolic.  Well-formedness: with CRC, length + 2 <= 65535.
impl Build for PDUHeader {
    type Shape = (usize, usize, bool, bool);
    fn build(s: &mut Src, _c: (), sh: Self::Shape) -> (Self, bool) {
        let f = s.u8();
        let crc = if f & 1 != 0 {
            CRCFlag::Present
        } else {
            CRCFlag::NotPresent
        };
        let fss = if f & 2 != 0 { Fss::Large } else { Fss::Small };
        let pdu_type = if f & 4 != 0 {
            PDUType::FileData
        } else {
            PDUType::FileDirective
        };
        let len = s.u16();
        let valid = !(crc == CRCFlag::Present && len > 65533);
        (
            header_of(s, sh.0, sh.1, crc, fss, pdu_type, sh.2, seg_flag(sh.3), len),
            valid,
        )
    }
}
#[allow(clippy::too_many_arguments)]
fn header_of(
    s: &mut Src,
    we: usize,
    ws: usize,
    crc: CRCFlag,
    fss: Fss,
    pdu_type: PDUType,
    segctl: bool,
    seg: SegmentedData,
    len: u16,
) -> PDUHeader {
    let b = s.u8();
    PDUHeader {
        version: u3(b),
        pdu_type,
        direction: direction(b & 0x08 != 0),
        transmission_mode: tmode(b & 0x10 != 0),
        crc_flag: crc,
        large_file_flag: fss,
        pdu_data_field_length: len,
        segmentation_control: segctrl(segctl),
        segment_metadata_flag: seg,
        source_entity_id: s.varid(we),
        transaction_sequence_number: s.varid(ws),
        destination_entity_id: s.varid(we),
    }
}
/// Whole PDU.  shape: (entity width, sequence width, CRC, segmentation control, large file,
/// payload).  pdu_data_field_length = payload.encoded_len(flag) (what every sender does).
impl Build for PDU {
    type Shape = (usize, usize, bool, bool, bool, Pl);
    fn build(s: &mut Src, _c: (), sh: Self::Shape) -> (Self, bool) {
        let (we, ws, crc, segctl, large, p) = sh;
        let fss = if large { Fss::Large } else { Fss::Small };
        let (fd, seg) = match p {
            Pl::Unseg(_) => (true, false),
            Pl::Seg(..) => (true, true),
            _ => (false, false),
        };
        let (payload, valid) = PDUPayload::build(s, (fd, fss, seg), p);
        let len = payload.encoded_len(fss);
        let header = header_of(
            s,
            we,
            ws,
            if crc {
                CRCFlag::Present
            } else {
                CRCFlag::NotPresent
            },
            fss,
            if fd {
                PDUType::FileData
            } else {
                PDUType::FileDirective
            },
            segctl,
            seg_flag(seg),
            len,
        );
        (PDU { header, payload }, valid)
    }
}

impl Build for Report {
    type Shape = (usize, usize);
    fn build(s: &mut Src, _c: (), sh: (usize, usize)) -> (Self, bool) {
        let id = TransactionID(s.varid(sh.0), s.varid(sh.1));
        let mut valid = true;
        let state = match tx_state(s.u8() & 3) {
            Some(x) => x,
            None => {
                valid = false;
                cfdp_core::transaction::TransactionState::Active
            }
        };
        let status = tx_status(s.u8());
        let condition = cond_of(s.u8() & 0x0f, &mut valid);
        (
            Report {
                id,
                state,
                status,
                condition,
            },
            valid,
        )
    }
}

// ---- user operations: leaf structs ------------------------------------------------------------
macro_rules! build_two_ids {
    ($t:ident) => {
        impl Build for $t {
            type Shape = (usize, usize);
            fn build(s: &mut Src, _c: (), sh: (usize, usize)) -> (Self, bool) {
                (
                    $t {
                        source_entity_id: s.varid(sh.0),
                        transaction_sequence_number: s.varid(sh.1),
                    },
                    true,
                )
            }
        }
    };
}
build_two_ids!(OriginatingTransactionIDMessage);
build_two_ids!(RemoteSuspendRequest);
build_two_ids!(RemoteResumeRequest);
impl Build for RemoteStatusReportRequest {
    type Shape = (usize, usize, usize);
    fn build(s: &mut Src, _c: (), sh: Self::Shape) -> (Self, bool) {
        (
            RemoteStatusReportRequest {
                source_entity_id: s.varid(sh.0),
                transaction_sequence_number: s.varid(sh.1),
                report_filename: s.path(sh.2),
            },
            true,
        )
    }
}
impl Build for RemoteStatusReportResponse {
    type Shape = (usize, usize);
    fn build(s: &mut Src, _c: (), sh: Self::Shape) -> (Self, bool) {
        let b = s.u8();
        (
            RemoteStatusReportResponse {
                transaction_status: tx_status(b),
                response_code: b & 4 != 0,
                source_entity_id: s.varid(sh.0),
                transaction_sequence_number: s.varid(sh.1),
            },
            true,
        )
    }
}
impl Build for RemoteSuspendResponse {
    type Shape = (usize, usize);
    fn build(s: &mut Src, _c: (), sh: Self::Shape) -> (Self, bool) {
        let b = s.u8();
        (
            RemoteSuspendResponse {
                suspend_indication: b & 4 != 0,
                transaction_status: tx_status(b),
                source_entity_id: s.varid(sh.0),
                transaction_sequence_number: s.varid(sh.1),
            },
            true,
        )
    }
}
impl Build for RemoteResumeResponse {
    type Shape = (usize, usize);
    fn build(s: &mut Src, _c: (), sh: Self::Shape) -> (Self, bool) {
        let b = s.u8();
        (
            RemoteResumeResponse {
                suspend_indication: b & 4 != 0,
                transaction_status: tx_status(b),
                source_entity_id: s.varid(sh.0),
                transaction_sequence_number: s.varid(sh.1),
            },
            true,
        )
    }
}
impl Build for ProxyPutRequest {
    type Shape = (usize, usize, usize);
    fn build(s: &mut Src, _c: (), sh: Self::Shape) -> (Self, bool) {
        (
            ProxyPutRequest {
                destination_entity_id: s.varid(sh.0),
                source_filename: s.path(sh.1),
                destination_filename: s.path(sh.2),
            },
            true,
        )
    }
}
impl Build for ProxyPutResponse {
    type Shape = ();
    fn build(s: &mut Src, _c: (), _sh: ()) -> (Self, bool) {
        let b = s.u8();
        let mut valid = true;
        (
            ProxyPutResponse {
                condition: cond_of(b & 0x0f, &mut valid),
                delivery_code: delivery(b & 0x10 != 0),
                file_status: file_status(b >> 5),
            },
            valid,
        )
    }
}
impl Build for DirectoryListingRequest {
    type Shape = (usize, usize);
    fn build(s: &mut Src, _c: (), sh: Self::Shape) -> (Self, bool) {
        (
            DirectoryListingRequest {
                directory_name: s.path(sh.0),
                directory_filename: s.path(sh.1),
            },
            true,
        )
    }
}
impl Build for DirectoryListingResponse {
    type Shape = (usize, usize);
    fn build(s: &mut Src, _c: (), sh: Self::Shape) -> (Self, bool) {
        (
            DirectoryListingResponse {
                response_code: if s.bool() {
                    ListingResponseCode::Unsuccessful
                } else {
                    ListingResponseCode::Successful
                },
                directory_name: s.path(sh.0),
                directory_filename: s.path(sh.1),
            },
            true,
        )
    }
}

/// Shape of a reserved CFDP user operation (the 23 publicly constructible kinds).
#[derive(Clone, Copy, Debug)]
pub enum Uo {
    OrigTx(usize, usize),
    ProxyPut(usize, usize, usize),
    ProxyMsg(usize),
    ProxyFsReq(usize, usize),
    ProxyFho,
    ProxyTm,
    ProxyFlow(usize),
    ProxyPutCancel,
    RespProxyPut,
    RespFs(usize, usize, usize),
    RespDirList(usize, usize),
    RespStatus(usize, usize),
    RespResume(usize, usize),
    RespSuspend(usize, usize),
    ReqDirList(usize, usize),
    ReqStatus(usize, usize, usize),
    ReqSuspend(usize, usize),
    ReqResume(usize, usize),
    SfoMsg(usize),
    SfoFlow(usize),
    SfoFho,
    SfoFsReq(usize, usize),
    SfoFsResp(usize, usize, usize),
}
impl Build for UserOperation {
    type Shape = Uo;
    fn build(s: &mut Src, _c: (), u: Uo) -> (Self, bool) {
        use ProxyOperation as P;
        use UserOperation as U;
        use UserRequest as Q;
        use UserResponse as R;
        macro_rules! b {
            ($t:ty, $sh:expr, $wrap:expr) => {{
                let (x, ok) = <$t>::build(s, (), $sh);
                ($wrap(x), ok)
            }};
        }
        match u {
            Uo::OrigTx(a, b) => b!(
                OriginatingTransactionIDMessage,
                (a, b),
                U::OriginatingTransactionIDMessage
            ),
            Uo::ProxyPut(w, a, b) => {
                b!(ProxyPutRequest, (w, a, b), |x| U::ProxyOperation(P::ProxyPutRequest(x)))
            }
            Uo::ProxyMsg(n) => b!(MessageToUser, n, |x| U::ProxyOperation(
                P::ProxyMessageToUser(x)
            )),
            Uo::ProxyFsReq(a, b) => b!(FileStoreRequest, (a, b), |x| U::ProxyOperation(
                P::ProxyFileStoreRequest(x)
            )),
            Uo::ProxyFho => b!(FaultHandlerOverride, (), |x| U::ProxyOperation(
                P::ProxyFaultHandlerOverride(x)
            )),
            Uo::ProxyTm => b!(TransmissionMode, (), |x| U::ProxyOperation(
                P::ProxyTransmissionMode(x)
            )),
            Uo::ProxyFlow(n) => b!(FlowLabel, n, |x| U::ProxyOperation(P::ProxyFlowLabel(x))),
            Uo::ProxyPutCancel => (U::ProxyOperation(P::ProxyPutCancel), true),
            Uo::RespProxyPut => b!(ProxyPutResponse, (), |x| U::Response(R::ProxyPut(x))),
            Uo::RespFs(a, b, c) => {
                b!(FileStoreResponse, (a, b, c), |x| U::Response(R::ProxyFileStore(x)))
            }
            Uo::RespDirList(a, b) => b!(DirectoryListingResponse, (a, b), |x| U::Response(
                R::DirectoryListing(x)
            )),
            Uo::RespStatus(a, b) => b!(RemoteStatusReportResponse, (a, b), |x| U::Response(
                R::RemoteStatusReport(x)
            )),
            Uo::RespResume(a, b) => {
                b!(RemoteResumeResponse, (a, b), |x| U::Response(R::RemoteResume(x)))
            }
            Uo::RespSuspend(a, b) => {
                b!(RemoteSuspendResponse, (a, b), |x| U::Response(R::RemoteSuspend(x)))
            }
            Uo::ReqDirList(a, b) => b!(DirectoryListingRequest, (a, b), |x| U::Request(
                Q::DirectoryListing(x)
            )),
            Uo::ReqStatus(a, b, l) => b!(RemoteStatusReportRequest, (a, b, l), |x| U::Request(
                Q::RemoteStatusReport(x)
            )),
            Uo::ReqSuspend(a, b) => {
                b!(RemoteSuspendRequest, (a, b), |x| U::Request(Q::RemoteSuspend(x)))
            }
            Uo::ReqResume(a, b) => {
                b!(RemoteResumeRequest, (a, b), |x| U::Request(Q::RemoteResume(x)))
            }
            Uo::SfoMsg(n) => b!(MessageToUser, n, U::SFOMessageToUser),
            Uo::SfoFlow(n) => b!(FlowLabel, n, U::SFOFlowLabel),
            Uo::SfoFho => b!(FaultHandlerOverride, (), U::SFOFaultHandlerOverride),
            Uo::SfoFsReq(a, b) => b!(FileStoreRequest, (a, b), U::SFOFileStoreRequest),
            Uo::SfoFsResp(a, b, c) => b!(FileStoreResponse, (a, b, c), U::SFOFileStoreResponse),
        }
    }
}

// =============================================================================================
// C05: constructive round trip.  encode(x) has the wire-format length n, encoded_len(x) == n,
// every pinned (length / type) octet of encode(x) has the wire-format value, and
// decode(encode(x)) == Ok(x).
// =============================================================================================
fn decode_and_compare<T: Codec>(c: T::Ctx, w: &[u8], x: &T) -> Outcome {
    let mut s: &[u8] = w;
    let r = T::dec(c, &mut s);
    match &r {
        Ok(y) => {
            vcheck!(y.same(x), "decode(encode(x)) != x");
        }
        Err(_) => {
            vcheck!(false, "decode(encode(x)) is Err");
        }
    }
    Outcome::Pass { accepted: true }
}

fn reencode_and_compare<T: Codec>(c: T::Ctx, x: &T, n: usize, pins: &Pins) -> Outcome {
    let enc = x.enc(c);
    vcheck!(
        enc.len() == n,
        "encode(x).len() differs from the wire-format length of this shape"
    );
    if let Some(el) = x.elen(c) {
        vcheck!(el == n, "encoded_len(x) != encode(x).len()");
    }
    if n <= WMAX {
        let mut w = wire_from_enc(&enc, n);
        vcheck!(
            pin(&mut w.w, pins),
            "a length/type octet of encode(x) differs from the wire format"
        );
        decode_and_compare(c, w.as_slice(), x)
    } else {
        let mut w = wirebig_from_enc(&enc, n);
        vcheck!(
            pin(&mut w.w, pins),
            "a length/type octet of encode(x) differs from the wire format"
        );
        decode_and_compare(c, w.as_slice(), x)
    }
}

pub fn c05_rt<T: Build>(c: T::Ctx, sh: T::Shape, pins: &Pins, n: usize, v: &[u8]) -> Outcome {
    let mut s = Src::new(v);
    let (x, valid) = T::build(&mut s, c, sh);
    vskip!(valid);
    reencode_and_compare(c, &x, n, pins)
}

// =============================================================================================
// Decoder-side checks (C06 canonicity; C05 for the kinds with private fields).
//
//   wire := template applied to the pool  (type/length octets concrete, value octets symbolic)
//   decode(wire) never panics;  if it is Ok(x):
//      encode(x) has the canonical length the generator predicted, encoded_len(x) agrees,
//      the canonical length/type octets are as predicted, and decode(encode(x)) == Ok(x).
//
//  * `t`       wire template (K octets), `g` class guards on the wire
//  * `canon`   Some((canonical length, canonical pins)) if the generator expects that inputs of
//              this template CAN be accepted; None if it classifies the template as malformed
//              (then acceptance itself is reported -- the generator's model of the wire format is
//              wrong or the decoder is more liberal than thought) unless `lax`, in which case the
//              harness only establishes absence of panics / non-termination.
// =============================================================================================
pub fn c06_decode<T: Codec>(
    c: T::Ctx,
    t: &Tpl,
    g: &Guards,
    canon: Option<(usize, &Pins)>,
    lax: bool,
    v: &[u8],
) -> Outcome {
    let wire = wire_from_tpl(t, v);
    vskip!(guards_hold(&wire.w, g));
    let mut s: &[u8] = wire.as_slice();
    let mut r = T::dec(c, &mut s);
    match &mut r {
        Err(_) => Outcome::Pass { accepted: false },
        Ok(x) => match canon {
            None => {
                if !lax {
                    vcheck!(
                        false,
                        "decoder accepted an input the generator classified as malformed"
                    );
                }
                Outcome::Pass { accepted: true }
            }
            Some((cn, pins)) => {
                x.canon();
                reencode_and_compare(c, x, cn, pins)
            }
        },
    }
}

/// No-panic sweep over every truncation of a datagram template: for k in 0..=payload length the
/// datagram `header(length field := k [+2 with CRC]) ++ payload[..k] [++ 2 CRC octets]` is decoded.
/// `hl` = header length (the template's first `hl` octets; octets 1..3 are the length field),
/// `crc` = the CRC flag in the template's first octet is set.
pub fn c06_pdu_trunc(t: &Tpl, hl: usize, crc: bool, v: &[u8]) -> Outcome {
    let full = wire_from_tpl(t, v);
    let pl = full.n - hl - if crc { 2 } else { 0 };
    let mut accepted = false;
    let mut k = 0;
    while k <= pl {
        let mut w = [0u8; WMAX];
        let mut i = 0;
        while i < hl + k {
            w[i] = full.w[i];
            i += 1;
        }
        let field = (k + if crc { 2 } else { 0 }) as u16;
        w[1] = (field >> 8) as u8;
        w[2] = field as u8;
        let mut n = hl + k;
        if crc {
            w[n] = full.w[full.n - 2];
            w[n + 1] = full.w[full.n - 1];
            n += 2;
        }
        let mut s: &[u8] = &w[..n];
        if PDU::decode(&mut s).is_ok() {
            accepted = true;
        }
        k += 1;
    }
    Outcome::Pass { accepted }
}

/// Same sweep one layer down: every prefix of a payload template through decoder T (used for
/// Operations / FileDataPDU, whose decoders see exactly the `pdu_data_field_length` octets that
/// PDU::decode slices off).
pub fn c06_trunc<T: Codec>(c: T::Ctx, t: &Tpl, v: &[u8]) -> Outcome {
    let full = wire_from_tpl(t, v);
    let mut accepted = false;
    let mut k = 0;
    while k <= full.n {
        let mut s: &[u8] = &full.w[..k];
        if T::dec(c, &mut s).is_ok() {
            accepted = true;
        }
        k += 1;
    }
    Outcome::Pass { accepted }
}

/// No-panic on n completely free octets, fed to decoder T in full and (when `trunc`) also
/// truncated to a symbolic length (v[n] selects it).
pub fn c06_free<T: Codec>(c: T::Ctx, n: usize, trunc: bool, v: &[u8]) -> Outcome {
    let mut s: &[u8] = &v[..n];
    let mut accepted = T::dec(c, &mut s).is_ok();
    if trunc {
        let k = v[n] as usize;
        if k < n {
            let mut s: &[u8] = &v[..k];
            if T::dec(c, &mut s).is_ok() {
                accepted = true;
            }
        }
    }
    Outcome::Pass { accepted }
}

#[allow(dead_code)]
fn _unused(_: Utf8PathBuf) {}
