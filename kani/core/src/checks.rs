//! The C05 / C06 check functions.  One function per obligation *scheme*; the concrete shape
//! (identifier widths, flags, string / list lengths, TLV layout) arrives as ordinary arguments that
//! are literals in the generated harness (see gen.py), so that under Kani every length is concrete
//! and only value octets -- taken from the single K-octet input `v` -- are symbolic.

use crate::util::*;
#[allow(unused_imports)]
use crate::{vcheck, vskip};
use cfdp_core::daemon::Report;
use cfdp_core::pdu::*;
use cfdp_core::transaction::TransactionID;

pub use cfdp_core::pdu::FileSizeFlag as Fss;

// =============================================================================================
// Shapes
// =============================================================================================

/// Shape of a Metadata TLV (string lengths / id width).
#[derive(Clone, Copy, Debug)]
pub enum Tlv {
    FsReq(usize, usize),
    FsResp(usize, usize, usize),
    Msg(usize),
    Fho,
    Flow(usize),
    Eid(usize),
}

/// Shape of a PDU payload.
#[derive(Clone, Copy, Debug)]
pub enum Pl {
    /// fault location width (None <=> condition == NoError)
    Eof(Option<usize>),
    /// filestore responses (l1, l2, lmsg); condition != NoError; fault location width
    Fin(&'static [(usize, usize, usize)], bool, Option<usize>),
    Ack,
    /// source name length, destination name length, options
    Meta(usize, usize, &'static [Tlv]),
    /// number of segment requests
    Nak(usize),
    Prompt,
    KeepAlive,
    /// file data length
    Unseg(usize),
    /// segment metadata length, file data length, record continuation state (it shares the
    /// first octet with the metadata length, so it is shape)
    Seg(usize, usize, u8),
}

/// Shape of a reserved CFDP user operation (the 23 publicly constructible kinds).
#[derive(Clone, Copy, Debug)]
pub enum Uo {
    OrigTx(usize, usize),
    ProxyPut(usize, usize, usize),
    ProxyMsg(usize),
    ProxyFsReq(usize, usize),
    ProxyFho,
    ProxyTm,
    ProxyFlow(usize),
    ProxyPutCancel,
    RespProxyPut,
    RespFs(usize, usize, usize),
    RespDirList(usize, usize),
    RespStatus(usize, usize),
    RespResume(usize, usize),
    RespSuspend(usize, usize),
    ReqDirList(usize, usize),
    ReqStatus(usize, usize, usize),
    ReqSuspend(usize, usize),
    ReqResume(usize, usize),
    SfoMsg(usize),
    SfoFlow(usize),
    SfoFho,
    SfoFsReq(usize, usize),
    SfoFsResp(usize, usize, usize),
}

// =============================================================================================
// Builders: shape + pool -> value.  None <=> pool octets outside the shape (harness skips).
// =============================================================================================

fn build_fsreq(s: &mut Src, l1: usize, l2: usize) -> Option<FileStoreRequest> {
    let action_code = fs_action(s.u8() & 0x0f)?;
    Some(FileStoreRequest {
        action_code,
        first_filename: s.path(l1),
        second_filename: s.path(l2),
    })
}
fn build_fsresp(s: &mut Src, l1: usize, l2: usize, lm: usize) -> Option<FileStoreResponse> {
    let b = s.u8();
    let action_and_status = fs_status(b >> 4, b & 0x0f)?;
    Some(FileStoreResponse {
        action_and_status,
        first_filename: s.path(l1),
        second_filename: s.path(l2),
        filestore_message: s.bytes(lm),
    })
}
fn build_fho(s: &mut Src) -> Option<FaultHandlerOverride> {
    Some(FaultHandlerOverride {
        fault_handler_code: handler_code(s.u8() & 0x07)?,
    })
}
fn build_tlv(s: &mut Src, t: Tlv) -> Option<MetadataTLV> {
    Some(match t {
        Tlv::FsReq(a, b) => MetadataTLV::FileStoreRequest(build_fsreq(s, a, b)?),
        Tlv::FsResp(a, b, c) => MetadataTLV::FileStoreResponse(build_fsresp(s, a, b, c)?),
        Tlv::Msg(n) => MetadataTLV::MessageToUser(MessageToUser {
            message_text: s.bytes(n),
        }),
        Tlv::Fho => MetadataTLV::FaultHandlerOverride(build_fho(s)?),
        Tlv::Flow(n) => MetadataTLV::FlowLabel(FlowLabel { value: s.bytes(n) }),
        Tlv::Eid(w) => MetadataTLV::EntityID(s.varid(w)),
    })
}

fn build_payload(s: &mut Src, fss: Fss, p: Pl) -> Option<PDUPayload> {
    Some(match p {
        Pl::Eof(fault) => {
            let c = condition(s.u8() & 0x0f)?;
            // well-formedness: fault location present iff condition != NoError
            if (c == Condition::NoError) != fault.is_none() {
                return None;
            }
            PDUPayload::Directive(Operations::EoF(EndOfFile {
                condition: c,
                checksum: s.u32(),
                file_size: s.fss(fss),
                fault_location: match fault {
                    Some(w) => Some(s.varid(w)),
                    None => None,
                },
            }))
        }
        Pl::Fin(resps, err, fault) => {
            let b = s.u8();
            let c = condition(b & 0x0f)?;
            if (c != Condition::NoError) != err {
                return None;
            }
            let mut filestore_response = Vec::with_capacity(resps.len());
            let mut i = 0;
            while i < resps.len() {
                let (l1, l2, lm) = resps[i];
                filestore_response.push(build_fsresp(s, l1, l2, lm)?);
                i += 1;
            }
            PDUPayload::Directive(Operations::Finished(Finished {
                condition: c,
                delivery_code: delivery(b & 0x10 != 0),
                file_status: file_status(b >> 5),
                filestore_response,
                fault_location: match fault {
                    Some(w) => Some(s.varid(w)),
                    None => None,
                },
            }))
        }
        Pl::Ack => {
            let b = s.u8();
            // "Only valid for EoF and Finished directives"; EoF pairs with Other, Finished with
            // Finished (CCSDS 727.0-B-5 5.2.4).
            let (directive, directive_subtype_code) = if b & 0x10 != 0 {
                (PDUDirective::Finished, ACKSubDirective::Finished)
            } else {
                (PDUDirective::EoF, ACKSubDirective::Other)
            };
            PDUPayload::Directive(Operations::Ack(PositiveAcknowledgePDU {
                directive,
                directive_subtype_code,
                condition: condition(b & 0x0f)?,
                transaction_status: tx_status(b >> 5),
            }))
        }
        Pl::Meta(ls, ld, opts) => {
            let b = s.u8();
            let file_size = s.fss(fss);
            let source_filename = s.path(ls);
            let destination_filename = s.path(ld);
            let mut options = Vec::with_capacity(opts.len());
            let mut i = 0;
            while i < opts.len() {
                options.push(build_tlv(s, opts[i])?);
                i += 1;
            }
            PDUPayload::Directive(Operations::Metadata(MetadataPDU {
                closure_requested: b & 1 != 0,
                checksum_type: checksum_type(b & 2 != 0),
                file_size,
                source_filename,
                destination_filename,
                options,
            }))
        }
        Pl::Nak(n) => {
            let start_of_scope = s.fss(fss);
            let end_of_scope = s.fss(fss);
            let mut segment_requests = Vec::with_capacity(n);
            for _ in 0..n {
                segment_requests.push(SegmentRequestForm {
                    start_offset: s.fss(fss),
                    end_offset: s.fss(fss),
                });
            }
            PDUPayload::Directive(Operations::Nak(NegativeAcknowledgmentPDU {
                start_of_scope,
                end_of_scope,
                segment_requests,
            }))
        }
        Pl::Prompt => PDUPayload::Directive(Operations::Prompt(PromptPDU {
            nak_or_keep_alive: if s.bool() {
                NakOrKeepAlive::KeepAlive
            } else {
                NakOrKeepAlive::Nak
            },
        })),
        Pl::KeepAlive => PDUPayload::Directive(Operations::KeepAlive(KeepAlivePDU {
            progress: s.fss(fss),
        })),
        Pl::Unseg(n) => PDUPayload::FileData(FileDataPDU::Unsegmented(UnsegmentedFileData {
            offset: s.fss(fss),
            file_data: s.bytes(n),
        })),
        Pl::Seg(m, n, r) => PDUPayload::FileData(FileDataPDU::Segmented(SegmentedFileData {
            record_continuation_state: rcs(r),
            segment_metadata: s.bytes(m),
            offset: s.fss(fss),
            file_data: s.bytes(n),
        })),
    })
}

fn pl_type(p: Pl) -> (PDUType, SegmentedData) {
    match p {
        Pl::Unseg(_) => (PDUType::FileData, SegmentedData::NotPresent),
        Pl::Seg(..) => (PDUType::FileData, SegmentedData::Present),
        _ => (PDUType::FileDirective, SegmentedData::NotPresent),
    }
}

fn build_userop(s: &mut Src, u: Uo) -> Option<UserOperation> {
    use ProxyOperation as P;
    use UserOperation as U;
    use UserRequest as Q;
    use UserResponse as R;
    Some(match u {
        Uo::OrigTx(we, ws) => {
            U::OriginatingTransactionIDMessage(OriginatingTransactionIDMessage {
                source_entity_id: s.varid(we),
                transaction_sequence_number: s.varid(ws),
            })
        }
        Uo::ProxyPut(w, l1, l2) => U::ProxyOperation(P::ProxyPutRequest(ProxyPutRequest {
            destination_entity_id: s.varid(w),
            source_filename: s.path(l1),
            destination_filename: s.path(l2),
        })),
        Uo::ProxyMsg(n) => U::ProxyOperation(P::ProxyMessageToUser(MessageToUser {
            message_text: s.bytes(n),
        })),
        Uo::ProxyFsReq(a, b) => U::ProxyOperation(P::ProxyFileStoreRequest(build_fsreq(s, a, b)?)),
        Uo::ProxyFho => U::ProxyOperation(P::ProxyFaultHandlerOverride(build_fho(s)?)),
        Uo::ProxyTm => U::ProxyOperation(P::ProxyTransmissionMode(tmode(s.bool()))),
        Uo::ProxyFlow(n) => U::ProxyOperation(P::ProxyFlowLabel(FlowLabel { value: s.bytes(n) })),
        Uo::ProxyPutCancel => U::ProxyOperation(P::ProxyPutCancel),
        Uo::RespProxyPut => {
            let b = s.u8();
            U::Response(R::ProxyPut(ProxyPutResponse {
                condition: condition(b & 0x0f)?,
                delivery_code: delivery(b & 0x10 != 0),
                file_status: file_status(b >> 5),
            }))
        }
        Uo::RespFs(a, b, c) => U::Response(R::ProxyFileStore(build_fsresp(s, a, b, c)?)),
        Uo::RespDirList(a, b) => U::Response(R::DirectoryListing(DirectoryListingResponse {
            response_code: if s.bool() {
                ListingResponseCode::Unsuccessful
            } else {
                ListingResponseCode::Successful
            },
            directory_name: s.path(a),
            directory_filename: s.path(b),
        })),
        Uo::RespStatus(we, ws) => {
            let b = s.u8();
            U::Response(R::RemoteStatusReport(RemoteStatusReportResponse {
                transaction_status: tx_status(b),
                response_code: b & 4 != 0,
                source_entity_id: s.varid(we),
                transaction_sequence_number: s.varid(ws),
            }))
        }
        Uo::RespResume(we, ws) => {
            let b = s.u8();
            U::Response(R::RemoteResume(RemoteResumeResponse {
                suspend_indication: b & 4 != 0,
                transaction_status: tx_status(b),
                source_entity_id: s.varid(we),
                transaction_sequence_number: s.varid(ws),
            }))
        }
        Uo::RespSuspend(we, ws) => {
            let b = s.u8();
            U::Response(R::RemoteSuspend(RemoteSuspendResponse {
                suspend_indication: b & 4 != 0,
                transaction_status: tx_status(b),
                source_entity_id: s.varid(we),
                transaction_sequence_number: s.varid(ws),
            }))
        }
        Uo::ReqDirList(a, b) => U::Request(Q::DirectoryListing(DirectoryListingRequest {
            directory_name: s.path(a),
            directory_filename: s.path(b),
        })),
        Uo::ReqStatus(we, ws, l) => U::Request(Q::RemoteStatusReport(RemoteStatusReportRequest {
            source_entity_id: s.varid(we),
            transaction_sequence_number: s.varid(ws),
            report_filename: s.path(l),
        })),
        Uo::ReqSuspend(we, ws) => U::Request(Q::RemoteSuspend(RemoteSuspendRequest {
            source_entity_id: s.varid(we),
            transaction_sequence_number: s.varid(ws),
        })),
        Uo::ReqResume(we, ws) => U::Request(Q::RemoteResume(RemoteResumeRequest {
            source_entity_id: s.varid(we),
            transaction_sequence_number: s.varid(ws),
        })),
        Uo::SfoMsg(n) => U::SFOMessageToUser(MessageToUser {
            message_text: s.bytes(n),
        }),
        Uo::SfoFlow(n) => U::SFOFlowLabel(FlowLabel { value: s.bytes(n) }),
        Uo::SfoFho => U::SFOFaultHandlerOverride(build_fho(s)?),
        Uo::SfoFsReq(a, b) => U::SFOFileStoreRequest(build_fsreq(s, a, b)?),
        Uo::SfoFsResp(a, b, c) => U::SFOFileStoreResponse(build_fsresp(s, a, b, c)?),
    })
}

/// Header with every non-length field taken from the pool.  `len`: value of the length field.
#[allow(clippy::too_many_arguments)]
fn build_header(
    s: &mut Src,
    we: usize,
    ws: usize,
    crc: CRCFlag,
    fss: Fss,
    pdu_type: PDUType,
    segctl: bool,
    seg: SegmentedData,
    len: u16,
) -> PDUHeader {
    let b = s.u8();
    PDUHeader {
        version: u3(b),
        pdu_type,
        direction: direction(b & 0x08 != 0),
        transmission_mode: tmode(b & 0x10 != 0),
        crc_flag: crc,
        large_file_flag: fss,
        pdu_data_field_length: len,
        segmentation_control: segctrl(segctl),
        segment_metadata_flag: seg,
        source_entity_id: s.varid(we),
        transaction_sequence_number: s.varid(ws),
        destination_entity_id: s.varid(we),
    }
}

// =============================================================================================
// C05: constructive round trips.  encode(x) has the wire-format length n, encoded_len(x) == n,
// every pinned (length / type) octet of encode(x) has the wire-format value, and
// decode(encode(x)) == Ok(x).
// =============================================================================================

macro_rules! round_trip {
    ($x:expr, $enc:expr, $elen:expr, $n:expr, $pins:expr, $dec:expr, $eq:expr) => {{
        let enc: Vec<u8> = $enc;
        vcheck!(
            enc.len() == $n,
            "encode(x).len() differs from the wire-format length of this shape"
        );
        if let Some(elen) = $elen {
            vcheck!(elen as usize == $n, "encoded_len(x) != encode(x).len()");
        }
        if $n <= WMAX {
            let mut w = vskip!(wire_from_enc(&enc, $n));
            vcheck!(
                pin(&mut w.w, $pins),
                "a length/type octet of encode(x) differs from the wire format"
            );
            let mut s: &[u8] = w.as_slice();
            match $dec(&mut s) {
                Ok(y) => {
                    vcheck!($eq(&y, $x), "decode(encode(x)) != x");
                }
                Err(_) => {
                    vcheck!(false, "decode(encode(x)) is Err");
                }
            }
        } else {
            let mut w = vskip!(wirebig_from_enc(&enc, $n));
            vcheck!(
                pin(&mut w.w, $pins),
                "a length/type octet of encode(x) differs from the wire format"
            );
            let mut s: &[u8] = w.as_slice();
            match $dec(&mut s) {
                Ok(y) => {
                    vcheck!($eq(&y, $x), "decode(encode(x)) != x");
                }
                Err(_) => {
                    vcheck!(false, "decode(encode(x)) is Err");
                }
            }
        }
        Outcome::Pass { accepted: true }
    }};
}

fn eq_derived<T: PartialEq>(a: &T, b: &T) -> bool {
    a == b
}

pub fn c05_varid(w: usize, pins: &Pins, n: usize, v: &[u8]) -> Outcome {
    let mut s = Src::new(v);
    let x = s.varid(w);
    // NB VariableID::encoded_len() is the width of the value; encode() prepends a length octet.
    round_trip!(
        &x,
        x.encode(),
        Some(x.encoded_len() + 1),
        n,
        pins,
        |s: &mut &[u8]| VariableID::decode(s),
        eq_derived
    )
}

pub fn c05_tmode(pins: &Pins, n: usize, v: &[u8]) -> Outcome {
    let mut s = Src::new(v);
    let x = tmode(s.bool());
    round_trip!(
        &x,
        x.encode(),
        Some(x.encoded_len()),
        n,
        pins,
        |s: &mut &[u8]| TransmissionMode::decode(s),
        eq_derived
    )
}

pub fn c05_segreq(fss: Fss, pins: &Pins, n: usize, v: &[u8]) -> Outcome {
    let mut s = Src::new(v);
    let x = SegmentRequestForm {
        start_offset: s.fss(fss),
        end_offset: s.fss(fss),
    };
    round_trip!(
        &x,
        x.clone().encode(fss),
        Some(x.encoded_len(fss)),
        n,
        pins,
        |s: &mut &[u8]| SegmentRequestForm::decode(s, fss),
        eq_derived
    )
}

/// PDUHeader round trip.  Identifier widths, segmentation-control and segment-metadata bits are
/// shape (they share octet 3 with the width nibbles); everything else incl. the CRC flag and the
/// full 16-bit length is symbolic.  Well-formedness: with CRC, length + 2 <= 65535.
pub fn c05_header(
    we: usize,
    ws: usize,
    segctl: bool,
    seg: bool,
    pins: &Pins,
    n: usize,
    v: &[u8],
) -> Outcome {
    let mut s = Src::new(v);
    let f = s.u8();
    let crc = if f & 1 != 0 {
        CRCFlag::Present
    } else {
        CRCFlag::NotPresent
    };
    let fss = if f & 2 != 0 { Fss::Large } else { Fss::Small };
    let pdu_type = if f & 4 != 0 {
        PDUType::FileData
    } else {
        PDUType::FileDirective
    };
    let segf = if seg {
        SegmentedData::Present
    } else {
        SegmentedData::NotPresent
    };
    let len = s.u16();
    if crc == CRCFlag::Present && len > 65533 {
        return Outcome::Skip;
    }
    let x = build_header(&mut s, we, ws, crc, fss, pdu_type, segctl, segf, len);
    round_trip!(
        &x,
        x.clone().encode(),
        Some(x.encoded_len()),
        n,
        pins,
        |s: &mut &[u8]| PDUHeader::decode(s),
        eq_derived
    )
}

/// Metadata TLV round trip; `standalone`: the inner type's own public codec instead of the TLV's.
pub fn c05_tlv(t: Tlv, standalone: bool, pins: &Pins, n: usize, v: &[u8]) -> Outcome {
    let mut s = Src::new(v);
    let x = vskip!(build_tlv(&mut s, t));
    if !standalone {
        return round_trip!(
            &x,
            x.clone().encode(),
            Some(x.encoded_len()),
            n,
            pins,
            |s: &mut &[u8]| MetadataTLV::decode(s),
            eq_tlv
        );
    }
    match x {
        MetadataTLV::FileStoreRequest(x) => round_trip!(
            &x,
            x.clone().encode(),
            Some(x.encoded_len()),
            n,
            pins,
            |s: &mut &[u8]| FileStoreRequest::decode(s),
            eq_fsreq
        ),
        MetadataTLV::FileStoreResponse(x) => round_trip!(
            &x,
            x.clone().encode(),
            Some(x.encoded_len()),
            n,
            pins,
            |s: &mut &[u8]| FileStoreResponse::decode(s),
            eq_fsresp
        ),
        MetadataTLV::MessageToUser(x) => round_trip!(
            &x,
            x.clone().encode(),
            Some(x.encoded_len()),
            n,
            pins,
            |s: &mut &[u8]| MessageToUser::decode(s),
            eq_derived
        ),
        MetadataTLV::FaultHandlerOverride(x) => round_trip!(
            &x,
            x.clone().encode(),
            Some(x.encoded_len()),
            n,
            pins,
            |s: &mut &[u8]| FaultHandlerOverride::decode(s),
            eq_derived
        ),
        MetadataTLV::FlowLabel(x) => round_trip!(
            &x,
            x.clone().encode(),
            Some(x.encoded_len()),
            n,
            pins,
            |s: &mut &[u8]| FlowLabel::decode(s),
            eq_derived
        ),
        MetadataTLV::EntityID(x) => round_trip!(
            &x,
            x.encode(),
            Some(x.encoded_len() + 1),
            n,
            pins,
            |s: &mut &[u8]| VariableID::decode(s),
            eq_derived
        ),
    }
}

/// Payload (directive or file data) round trip through PDUPayload::{encode, encoded_len, decode}.
pub fn c05_payload(fss: Fss, p: Pl, pins: &Pins, n: usize, v: &[u8]) -> Outcome {
    let mut s = Src::new(v);
    let x = vskip!(build_payload(&mut s, fss, p));
    let (pdu_type, seg) = pl_type(p);
    round_trip!(
        &x,
        x.clone().encode(fss),
        Some(x.encoded_len(fss)),
        n,
        pins,
        |s: &mut &[u8]| PDUPayload::decode(s, pdu_type.clone(), fss, seg),
        eq_payload
    )
}

/// Whole PDU round trip (header + payload + optional CRC) through PDU::{encode, encoded_len, decode}.
/// pdu_data_field_length = payload.encoded_len(flag) (what every sender in cfdp-daemon does).
/// NB PDU::encoded_len() does not count the two CRC octets; the obligation is
/// encoded_len + (2 if CRC) == encode().len().
#[allow(clippy::too_many_arguments)]
pub fn c05_pdu(
    we: usize,
    ws: usize,
    crc: bool,
    segctl: bool,
    fss: Fss,
    p: Pl,
    pins: &Pins,
    n: usize,
    v: &[u8],
) -> Outcome {
    let mut s = Src::new(v);
    let payload = vskip!(build_payload(&mut s, fss, p));
    let (pdu_type, seg) = pl_type(p);
    let crcf = if crc {
        CRCFlag::Present
    } else {
        CRCFlag::NotPresent
    };
    let len = payload.encoded_len(fss);
    let header = build_header(&mut s, we, ws, crcf, fss, pdu_type, segctl, seg, len);
    let x = PDU { header, payload };
    let extra: u16 = if crc { 2 } else { 0 };
    round_trip!(
        &x,
        x.clone().encode(),
        Some(x.encoded_len() + extra),
        n,
        pins,
        |s: &mut &[u8]| PDU::decode(s),
        eq_pdu
    )
}

/// Reserved CFDP user operation round trip (constructible kinds).
pub fn c05_userop(u: Uo, pins: &Pins, n: usize, v: &[u8]) -> Outcome {
    let mut s = Src::new(v);
    let x = vskip!(build_userop(&mut s, u));
    round_trip!(
        &x,
        x.clone().encode(),
        Some(x.encoded_len()),
        n,
        pins,
        |s: &mut &[u8]| UserOperation::decode(s),
        eq_userop
    )
}

/// Status report (cfdp-core/src/daemon.rs).  Report has no encoded_len and no PartialEq.
pub fn c05_report(we: usize, ws: usize, pins: &Pins, n: usize, v: &[u8]) -> Outcome {
    let mut s = Src::new(v);
    let x = Report {
        id: TransactionID(s.varid(we), s.varid(ws)),
        state: vskip!(tx_state(s.u8() & 3)),
        status: tx_status(s.u8()),
        condition: vskip!(condition(s.u8() & 0x0f)),
    };
    let no_len: Option<u16> = None;
    round_trip!(
        &x,
        x.clone().encode(),
        no_len,
        n,
        pins,
        |s: &mut &[u8]| Report::decode(s),
        eq_report
    )
}
fn eq_report(a: &Report, b: &Report) -> bool {
    a.id == b.id && a.state == b.state && a.status == b.status && a.condition == b.condition
}

// =============================================================================================
// Decoder-side checks (C06 canonicity; C05 for the kinds with private fields).
//
//   wire := template applied to the pool  (type/length octets concrete, value octets symbolic)
//   decode(wire) never panics;  if it is Ok(x):
//      encode(x) has the canonical length the generator predicted, encoded_len(x) agrees,
//      the canonical length/type octets are as predicted, and decode(encode(x)) == Ok(x).
// =============================================================================================

/// Which public decoder a type-level harness exercises.
#[derive(Clone, Copy, Debug)]
pub enum Dec {
    Header,
    VarId,
    Lv,
    TMode,
    Fho,
    Flow,
    Msg,
    FsReq,
    FsResp,
    Tlv,
    UserOp,
    Report,
    SegReq(Fss),
    /// PDUPayload::decode(pdu_type is FileData, fss, segment metadata present)
    Payload(bool, Fss, bool),
    Pdu,
}

/// A decoded value of any of the types above.
pub enum Val {
    Header(PDUHeader),
    VarId(VariableID),
    Lv(Vec<u8>),
    TMode(TransmissionMode),
    Fho(FaultHandlerOverride),
    Flow(FlowLabel),
    Msg(MessageToUser),
    FsReq(FileStoreRequest),
    FsResp(FileStoreResponse),
    Tlv(MetadataTLV),
    UserOp(UserOperation),
    Report(Report),
    SegReq(SegmentRequestForm),
    Payload(PDUPayload),
    Pdu(PDU),
}

fn payload_args(fd: bool, seg: bool) -> (PDUType, SegmentedData) {
    (
        if fd {
            PDUType::FileData
        } else {
            PDUType::FileDirective
        },
        if seg {
            SegmentedData::Present
        } else {
            SegmentedData::NotPresent
        },
    )
}

pub fn decode_any(d: Dec, s: &mut &[u8]) -> PDUResult<Val> {
    Ok(match d {
        Dec::Header => Val::Header(PDUHeader::decode(s)?),
        Dec::VarId => Val::VarId(VariableID::decode(s)?),
        Dec::Lv => Val::Lv(read_length_value_pair(s)?),
        Dec::TMode => Val::TMode(TransmissionMode::decode(s)?),
        Dec::Fho => Val::Fho(FaultHandlerOverride::decode(s)?),
        Dec::Flow => Val::Flow(FlowLabel::decode(s)?),
        Dec::Msg => Val::Msg(MessageToUser::decode(s)?),
        Dec::FsReq => Val::FsReq(FileStoreRequest::decode(s)?),
        Dec::FsResp => Val::FsResp(FileStoreResponse::decode(s)?),
        Dec::Tlv => Val::Tlv(MetadataTLV::decode(s)?),
        Dec::UserOp => Val::UserOp(UserOperation::decode(s)?),
        Dec::Report => Val::Report(Report::decode(s)?),
        Dec::SegReq(f) => Val::SegReq(SegmentRequestForm::decode(s, f)?),
        Dec::Payload(fd, f, seg) => {
            let (t, g) = payload_args(fd, seg);
            Val::Payload(PDUPayload::decode(s, t, f, g)?)
        }
        Dec::Pdu => Val::Pdu(PDU::decode(s)?),
    })
}

/// Canonical re-encoding: (octets, encoded_len() + adjustments so that it should equal octets.len()).
/// For a PDU the length field is recomputed from the payload first (C06 statement).
fn reencode(d: Dec, x: &Val) -> (Val, Vec<u8>, Option<usize>) {
    match x {
        Val::Header(h) => (
            Val::Header(h.clone()),
            h.clone().encode(),
            Some(h.encoded_len() as usize),
        ),
        Val::VarId(i) => (
            Val::VarId(*i),
            i.encode(),
            Some(i.encoded_len() as usize + 1),
        ),
        Val::Lv(b) => {
            // read_length_value_pair has no encoder; its inverse is the LV form
            let mut e = vec![b.len() as u8];
            e.extend_from_slice(b);
            (Val::Lv(b.clone()), e, None)
        }
        Val::TMode(t) => (
            Val::TMode(*t),
            t.encode(),
            Some(t.encoded_len() as usize),
        ),
        Val::Fho(t) => (
            Val::Fho(t.clone()),
            t.clone().encode(),
            Some(t.encoded_len() as usize),
        ),
        Val::Flow(t) => (
            Val::Flow(t.clone()),
            t.clone().encode(),
            Some(t.encoded_len() as usize),
        ),
        Val::Msg(t) => (
            Val::Msg(t.clone()),
            t.clone().encode(),
            Some(t.encoded_len() as usize),
        ),
        Val::FsReq(t) => (
            Val::FsReq(t.clone()),
            t.clone().encode(),
            Some(t.encoded_len() as usize),
        ),
        Val::FsResp(t) => (
            Val::FsResp(t.clone()),
            t.clone().encode(),
            Some(t.encoded_len() as usize),
        ),
        Val::Tlv(t) => (
            Val::Tlv(t.clone()),
            t.clone().encode(),
            Some(t.encoded_len() as usize),
        ),
        Val::UserOp(t) => (
            Val::UserOp(t.clone()),
            t.clone().encode(),
            Some(t.encoded_len() as usize),
        ),
        Val::Report(t) => (Val::Report(t.clone()), t.clone().encode(), None),
        Val::SegReq(t) => {
            let f = match d {
                Dec::SegReq(f) => f,
                _ => Fss::Small,
            };
            (
                Val::SegReq(t.clone()),
                t.clone().encode(f),
                Some(t.encoded_len(f) as usize),
            )
        }
        Val::Payload(t) => {
            let f = match d {
                Dec::Payload(_, f, _) => f,
                _ => Fss::Small,
            };
            (
                Val::Payload(t.clone()),
                t.clone().encode(f),
                Some(t.encoded_len(f) as usize),
            )
        }
        Val::Pdu(t) => {
            let mut y = t.clone();
            y.header.pdu_data_field_length = y.payload.encoded_len(y.header.large_file_flag);
            let extra = match y.header.crc_flag {
                CRCFlag::Present => 2,
                CRCFlag::NotPresent => 0,
            };
            let el = y.encoded_len() as usize + extra;
            (Val::Pdu(y.clone()), y.encode(), Some(el))
        }
    }
}

fn eq_val(a: &Val, b: &Val) -> bool {
    match (a, b) {
        (Val::Header(x), Val::Header(y)) => x == y,
        (Val::VarId(x), Val::VarId(y)) => x == y,
        (Val::Lv(x), Val::Lv(y)) => x == y,
        (Val::TMode(x), Val::TMode(y)) => x == y,
        (Val::Fho(x), Val::Fho(y)) => x == y,
        (Val::Flow(x), Val::Flow(y)) => x == y,
        (Val::Msg(x), Val::Msg(y)) => x == y,
        (Val::FsReq(x), Val::FsReq(y)) => eq_fsreq(x, y),
        (Val::FsResp(x), Val::FsResp(y)) => eq_fsresp(x, y),
        (Val::Tlv(x), Val::Tlv(y)) => eq_tlv(x, y),
        (Val::UserOp(x), Val::UserOp(y)) => eq_userop(x, y),
        (Val::Report(x), Val::Report(y)) => eq_report(x, y),
        (Val::SegReq(x), Val::SegReq(y)) => x == y,
        (Val::Payload(x), Val::Payload(y)) => eq_payload(x, y),
        (Val::Pdu(x), Val::Pdu(y)) => eq_pdu(x, y),
        _ => false,
    }
}

/// Template-driven decoder check.
///  * `t`       wire template (K octets), `g` class guards on the wire
///  * `canon`   Some((canonical length, canonical pins)) if the generator expects that datagrams
///              of this template CAN be accepted; None if it classifies the template as malformed
///              (then acceptance itself is reported -- it means the generator's model of the wire
///              format is wrong or the decoder is more liberal than thought) unless `lax`, in
///              which case the harness only establishes absence of panics / non-termination.
pub fn c06_decode(
    d: Dec,
    t: &Tpl,
    g: &Guards,
    canon: Option<(usize, &Pins)>,
    lax: bool,
    v: &[u8],
) -> Outcome {
    let wire = wire_from_tpl(t, v);
    if !guards_hold(&wire.w, g) {
        return Outcome::Skip;
    }
    let mut s: &[u8] = wire.as_slice();
    let x = match decode_any(d, &mut s) {
        Err(_) => return Outcome::Pass { accepted: false },
        Ok(x) => x,
    };
    let (cn, pins) = match canon {
        Some(c) => c,
        None => {
            if !lax {
                vcheck!(
                    false,
                    "decoder accepted a datagram the generator classified as malformed"
                );
            }
            return Outcome::Pass { accepted: true };
        }
    };
    let (y, enc, elen) = reencode(d, &x);
    vcheck!(
        enc.len() == cn,
        "re-encoding of the accepted value does not have the predicted canonical length"
    );
    if let Some(el) = elen {
        vcheck!(el == cn, "encoded_len(x) != encode(x).len() for an accepted value");
    }
    let mut w2 = vskip!(wire_from_enc(&enc, cn));
    vcheck!(
        pin(&mut w2.w, pins),
        "a length/type octet of the re-encoding differs from the canonical wire format"
    );
    let mut s2: &[u8] = w2.as_slice();
    match decode_any(d, &mut s2) {
        Ok(z) => {
            vcheck!(
                eq_val(&z, &y),
                "not canonical: decode(encode(x)) != x for an accepted x"
            );
        }
        Err(_) => {
            vcheck!(false, "not canonical: re-encoding of an accepted value is rejected");
        }
    }
    Outcome::Pass { accepted: true }
}

/// No-panic sweep over every truncation of a datagram template: for k in 0..=payload length the
/// datagram `header(length field := k [+2 with CRC]) ++ payload[..k] [++ 2 CRC octets]` is decoded.
/// `hl` = header length (the template's first `hl` octets; octets 1..3 are the length field),
/// `crc` = the CRC flag in the template's first octet is set.
pub fn c06_pdu_trunc(t: &Tpl, hl: usize, crc: bool, v: &[u8]) -> Outcome {
    let full = wire_from_tpl(t, v);
    let pl = full.n - hl - if crc { 2 } else { 0 };
    let mut accepted = false;
    let mut k = 0;
    while k <= pl {
        let mut w = [0u8; WMAX];
        let mut i = 0;
        while i < hl + k {
            w[i] = full.w[i];
            i += 1;
        }
        let field = (k + if crc { 2 } else { 0 }) as u16;
        w[1] = (field >> 8) as u8;
        w[2] = field as u8;
        let mut n = hl + k;
        if crc {
            w[n] = full.w[full.n - 2];
            w[n + 1] = full.w[full.n - 1];
            n += 2;
        }
        let mut s: &[u8] = &w[..n];
        if PDU::decode(&mut s).is_ok() {
            accepted = true;
        }
        k += 1;
    }
    Outcome::Pass { accepted }
}

/// No-panic on n completely free octets, fed to decoder `d` in full and (when `trunc`) also
/// truncated to a symbolic length (v[n] selects it).
pub fn c06_free(d: Dec, n: usize, trunc: bool, v: &[u8]) -> Outcome {
    let mut s: &[u8] = &v[..n];
    let mut accepted = decode_any(d, &mut s).is_ok();
    if trunc {
        let k = v[n] as usize;
        if k < n {
            let mut s: &[u8] = &v[..k];
            if decode_any(d, &mut s).is_ok() {
                accepted = true;
            }
        }
    }
    Outcome::Pass { accepted }
}
