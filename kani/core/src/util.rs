//! Shared plumbing for the C05/C06 check functions.
//!
//! Everything in this file is compiled twice: by `cargo kani` (cfg(kani)) as part of the harness
//! crate, and by plain `cargo build` as part of the native replay binary.  A check function takes
//! the harness's K input octets as `&[u8]` and returns an [`Outcome`]; under Kani a violated
//! obligation is an `assert!` (so CBMC reports it), natively it is `Outcome::Mismatch`.

use camino::Utf8PathBuf;
use cfdp_core::filestore::ChecksumType;
use cfdp_core::pdu::*;
use cfdp_core::transaction::TransactionState;

#[derive(Clone, Copy, PartialEq, Eq, Debug)]
pub enum Outcome {
    /// All obligations held.  `accepted`: a decoder under test returned Ok (vacuity guard).
    Pass { accepted: bool },
    /// The input octets do not describe a value of the harness's shape (acts like `assume`).
    Skip,
    /// An obligation was violated (native build only; under Kani this is an assertion failure).
    Mismatch(&'static str),
}
impl Outcome {
    pub fn is_pass(&self) -> bool {
        matches!(self, Outcome::Pass { .. })
    }
    pub fn accepted(&self) -> bool {
        matches!(self, Outcome::Pass { accepted: true })
    }
}

/// Obligation: assertion under Kani, early `Mismatch` return natively.
#[macro_export]
macro_rules! vcheck {
    ($cond:expr, $msg:literal) => {{
        #[cfg(kani)]
        {
            assert!($cond, $msg);
        }
        #[cfg(not(kani))]
        {
            if !($cond) {
                return $crate::util::Outcome::Mismatch($msg);
            }
        }
    }};
}

/// `assume`-like filter: leave the check when the pool octets are outside the shape.
#[macro_export]
macro_rules! vskip {
    ($valid:expr) => {
        if !($valid) {
            return $crate::util::Outcome::Skip;
        }
    };
}

// ---------------------------------------------------------------------------------------------
// UTF-8 validation stub.
//
// std's `core::str::from_utf8` uses a word-at-a-time fast path guarded by `align_offset`, which
// Kani models nondeterministically: the loop bounds become opaque to CBMC's symbolic execution
// and a 2-octet file name costs minutes / tens of GB.  The harnesses replace it
// (`#[kani::stub(core::str::from_utf8, from_utf8_stub)]`) by this one-step-per-octet DFA.
// ASSUMPTION (reported in README): `simple_utf8_ok(v) == core::str::from_utf8(v).is_ok()`;
// `pdu_replay selftest-utf8` checks it natively for every octet string of length <= 3, for every
// 4-octet string with a non-ASCII lead, and for 20M pseudo-random strings of length <= 12.
// The `Utf8Error` payload is never inspected by cfdp-core (it is wrapped in
// `PDUError::InvalidFileName`), so its contents are irrelevant.
// ---------------------------------------------------------------------------------------------
pub fn simple_utf8_ok(v: &[u8]) -> bool {
    let mut rem: u8 = 0;
    let mut lo: u8 = 0x80;
    let mut hi: u8 = 0xBF;
    let mut ok = true;
    for &b in v.iter() {
        if rem == 0 {
            if b < 0x80 {
            } else if b >= 0xC2 && b <= 0xDF {
                rem = 1;
                lo = 0x80;
                hi = 0xBF;
            } else if b == 0xE0 {
                rem = 2;
                lo = 0xA0;
                hi = 0xBF;
            } else if b == 0xED {
                rem = 2;
                lo = 0x80;
                hi = 0x9F;
            } else if b >= 0xE1 && b <= 0xEF {
                rem = 2;
                lo = 0x80;
                hi = 0xBF;
            } else if b == 0xF0 {
                rem = 3;
                lo = 0x90;
                hi = 0xBF;
            } else if b >= 0xF1 && b <= 0xF3 {
                rem = 3;
                lo = 0x80;
                hi = 0xBF;
            } else if b == 0xF4 {
                rem = 3;
                lo = 0x80;
                hi = 0x8F;
            } else {
                ok = false;
            }
        } else {
            if b < lo || b > hi {
                ok = false;
            }
            rem -= 1;
            lo = 0x80;
            hi = 0xBF;
        }
    }
    ok && rem == 0
}

#[cfg(kani)]
pub fn from_utf8_stub(v: &[u8]) -> Result<&str, core::str::Utf8Error> {
    if simple_utf8_ok(v) {
        Ok(unsafe { core::str::from_utf8_unchecked(v) })
    } else {
        // A Utf8Error is two plain integers; cfdp-core never looks inside.
        Err(unsafe { core::mem::zeroed() })
    }
}

// ---------------------------------------------------------------------------------------------
// Pool cursor: every check draws its values from the K input octets, in order.
// ---------------------------------------------------------------------------------------------
pub struct Src<'a> {
    v: &'a [u8],
    i: usize,
}
impl<'a> Src<'a> {
    pub fn new(v: &'a [u8]) -> Self {
        Self { v, i: 0 }
    }
    pub fn used(&self) -> usize {
        self.i
    }
    pub fn u8(&mut self) -> u8 {
        let b = self.v[self.i];
        self.i += 1;
        b
    }
    pub fn u16(&mut self) -> u16 {
        u16::from_be_bytes([self.u8(), self.u8()])
    }
    pub fn u32(&mut self) -> u32 {
        u32::from_be_bytes([self.u8(), self.u8(), self.u8(), self.u8()])
    }
    pub fn u64(&mut self) -> u64 {
        let hi = self.u32() as u64;
        let lo = self.u32() as u64;
        (hi << 32) | lo
    }
    /// file-size-sensitive value: < 2^32 under Small (wire-format limit), full u64 under Large
    pub fn fss(&mut self, f: FileSizeFlag) -> u64 {
        match f {
            FileSizeFlag::Small => self.u32() as u64,
            FileSizeFlag::Large => self.u64(),
        }
    }
    pub fn bytes(&mut self, n: usize) -> Vec<u8> {
        let mut out = Vec::with_capacity(n);
        for _ in 0..n {
            out.push(self.u8());
        }
        out
    }
    /// n arbitrary ASCII octets (0x00..=0x7f) as a path.  RESTRICTION: names are ASCII.
    pub fn path(&mut self, n: usize) -> Utf8PathBuf {
        let mut out = Vec::with_capacity(n);
        for _ in 0..n {
            out.push(self.u8() & 0x7f);
        }
        Utf8PathBuf::from(unsafe { String::from_utf8_unchecked(out) })
    }
    pub fn varid(&mut self, w: usize) -> VariableID {
        match w {
            1 => VariableID::U8(self.u8()),
            2 => VariableID::U16(self.u16()),
            4 => VariableID::U32(self.u32()),
            _ => VariableID::U64(self.u64()),
        }
    }
    pub fn bool(&mut self) -> bool {
        self.u8() & 1 != 0
    }
}

// ---------------------------------------------------------------------------------------------
// Independent octet -> enum tables (do NOT use the crate's derived from_u8).
// ---------------------------------------------------------------------------------------------
pub fn condition(n: u8) -> Option<Condition> {
    Some(match n {
        0 => Condition::NoError,
        1 => Condition::PositiveLimitReached,
        2 => Condition::KeepAliveLimitReached,
        3 => Condition::InvalidTransmissionMode,
        4 => Condition::FileStoreRejection,
        5 => Condition::FileChecksumFailure,
        6 => Condition::FilesizeError,
        7 => Condition::NakLimitReached,
        8 => Condition::InactivityDetected,
        9 => Condition::InvalidFileStructure,
        10 => Condition::CheckLimitReached,
        11 => Condition::UnsupportedChecksumType,
        14 => Condition::SuspendReceived,
        15 => Condition::CancelReceived,
        _ => return None,
    })
}
pub fn u3(n: u8) -> U3 {
    match n & 7 {
        0 => U3::Zero,
        1 => U3::One,
        2 => U3::Two,
        3 => U3::Three,
        4 => U3::Four,
        5 => U3::Five,
        6 => U3::Six,
        _ => U3::Seven,
    }
}
pub fn direction(b: bool) -> Direction {
    if b {
        Direction::ToSender
    } else {
        Direction::ToReceiver
    }
}
pub fn tmode(b: bool) -> TransmissionMode {
    if b {
        TransmissionMode::Unacknowledged
    } else {
        TransmissionMode::Acknowledged
    }
}
pub fn segctrl(b: bool) -> SegmentationControl {
    if b {
        SegmentationControl::Preserved
    } else {
        SegmentationControl::NotPreserved
    }
}
pub fn delivery(b: bool) -> DeliveryCode {
    if b {
        DeliveryCode::Incomplete
    } else {
        DeliveryCode::Complete
    }
}
pub fn file_status(n: u8) -> FileStatusCode {
    match n & 3 {
        0 => FileStatusCode::Discarded,
        1 => FileStatusCode::FileStoreRejection,
        2 => FileStatusCode::Retained,
        _ => FileStatusCode::Unreported,
    }
}
pub fn tx_status(n: u8) -> TransactionStatus {
    match n & 3 {
        0 => TransactionStatus::Undefined,
        1 => TransactionStatus::Active,
        2 => TransactionStatus::Terminated,
        _ => TransactionStatus::Unrecognized,
    }
}
pub fn handler_code(n: u8) -> Option<HandlerCode> {
    Some(match n {
        1 => HandlerCode::NoticeOfCancellation,
        2 => HandlerCode::NoticeOfSuspension,
        3 => HandlerCode::IgnoreError,
        4 => HandlerCode::AbandonTransaction,
        _ => return None,
    })
}
pub fn fs_action(n: u8) -> Option<FileStoreAction> {
    Some(match n {
        0 => FileStoreAction::CreateFile,
        1 => FileStoreAction::DeleteFile,
        2 => FileStoreAction::RenameFile,
        3 => FileStoreAction::AppendFile,
        4 => FileStoreAction::ReplaceFile,
        5 => FileStoreAction::CreateDirectory,
        6 => FileStoreAction::RemoveDirectory,
        7 => FileStoreAction::DenyFile,
        8 => FileStoreAction::DenyDirectory,
        _ => return None,
    })
}
/// (action nibble, status nibble) -> status, every legal combination of CCSDS 727.0-B-5 table 5-18
pub fn fs_status(action: u8, st: u8) -> Option<FileStoreStatus> {
    Some(match (action, st) {
        (0, 0) => FileStoreStatus::CreateFile(CreateFileStatus::Successful),
        (0, 1) => FileStoreStatus::CreateFile(CreateFileStatus::NotAllowed),
        (0, 15) => FileStoreStatus::CreateFile(CreateFileStatus::NotPerformed),
        (1, 0) => FileStoreStatus::DeleteFile(DeleteFileStatus::Successful),
        (1, 1) => FileStoreStatus::DeleteFile(DeleteFileStatus::FileDoesNotExist),
        (1, 2) => FileStoreStatus::DeleteFile(DeleteFileStatus::DeleteNotAllowed),
        (1, 15) => FileStoreStatus::DeleteFile(DeleteFileStatus::NotPerformed),
        (2, 0) => FileStoreStatus::RenameFile(RenameStatus::Successful),
        (2, 1) => FileStoreStatus::RenameFile(RenameStatus::OldFilenameDoesNotExist),
        (2, 2) => FileStoreStatus::RenameFile(RenameStatus::NewFilenameAlreadyExists),
        (2, 3) => FileStoreStatus::RenameFile(RenameStatus::RenameNotAllowed),
        (2, 15) => FileStoreStatus::RenameFile(RenameStatus::NotPerformed),
        (3, 0) => FileStoreStatus::AppendFile(AppendStatus::Successful),
        (3, 1) => FileStoreStatus::AppendFile(AppendStatus::Filename1DoesNotExist),
        (3, 2) => FileStoreStatus::AppendFile(AppendStatus::Filename2DoesNotExist),
        (3, 3) => FileStoreStatus::AppendFile(AppendStatus::NotAllowed),
        (3, 15) => FileStoreStatus::AppendFile(AppendStatus::NotPerformed),
        (4, 0) => FileStoreStatus::ReplaceFile(ReplaceStatus::Successful),
        (4, 1) => FileStoreStatus::ReplaceFile(ReplaceStatus::Filename1DoesNotExist),
        (4, 2) => FileStoreStatus::ReplaceFile(ReplaceStatus::Filename2DoesNotExist),
        (4, 3) => FileStoreStatus::ReplaceFile(ReplaceStatus::NotAllowed),
        (4, 15) => FileStoreStatus::ReplaceFile(ReplaceStatus::NotPerformed),
        (5, 0) => FileStoreStatus::CreateDirectory(CreateDirectoryStatus::Successful),
        (5, 1) => FileStoreStatus::CreateDirectory(CreateDirectoryStatus::DirectoryCannotBeCreated),
        (5, 15) => FileStoreStatus::CreateDirectory(CreateDirectoryStatus::NotPerformed),
        (6, 0) => FileStoreStatus::RemoveDirectory(RemoveDirectoryStatus::Successful),
        (6, 1) => FileStoreStatus::RemoveDirectory(RemoveDirectoryStatus::DirectoryDoesNotExist),
        (6, 6) => FileStoreStatus::RemoveDirectory(RemoveDirectoryStatus::DeleteNotAllowed),
        (6, 15) => FileStoreStatus::RemoveDirectory(RemoveDirectoryStatus::NotPerformed),
        (7, 0) => FileStoreStatus::DenyFile(DenyStatus::Successful),
        (7, 2) => FileStoreStatus::DenyFile(DenyStatus::NotAllowed),
        (7, 15) => FileStoreStatus::DenyFile(DenyStatus::NotPerformed),
        (8, 0) => FileStoreStatus::DenyDirectory(DenyStatus::Successful),
        (8, 2) => FileStoreStatus::DenyDirectory(DenyStatus::NotAllowed),
        (8, 15) => FileStoreStatus::DenyDirectory(DenyStatus::NotPerformed),
        _ => return None,
    })
}
pub fn checksum_type(b: bool) -> ChecksumType {
    if b {
        ChecksumType::Null
    } else {
        ChecksumType::Modular
    }
}
pub fn tx_state(n: u8) -> Option<TransactionState> {
    Some(match n {
        0 => TransactionState::Active,
        1 => TransactionState::Suspended,
        2 => TransactionState::Terminated,
        _ => return None,
    })
}
pub fn rcs(n: u8) -> RecordContinuationState {
    match n & 3 {
        0 => RecordContinuationState::Interim,
        1 => RecordContinuationState::First,
        2 => RecordContinuationState::Last,
        _ => RecordContinuationState::Unsegmented,
    }
}

// ---------------------------------------------------------------------------------------------
// Structural equality with file names compared as STRINGS.
// (`Utf8PathBuf: PartialEq` compares path *components*: "a//b" == "a/b".  That is weaker than what
// a codec round trip must preserve, and its component parser is very expensive for CBMC.)
// ---------------------------------------------------------------------------------------------
pub fn eq_path(a: &Utf8PathBuf, b: &Utf8PathBuf) -> bool {
    a.as_str().as_bytes() == b.as_str().as_bytes()
}
pub fn eq_fsreq(a: &FileStoreRequest, b: &FileStoreRequest) -> bool {
    a.action_code == b.action_code
        && eq_path(&a.first_filename, &b.first_filename)
        && eq_path(&a.second_filename, &b.second_filename)
}
pub fn eq_fsresp(a: &FileStoreResponse, b: &FileStoreResponse) -> bool {
    a.action_and_status == b.action_and_status
        && eq_path(&a.first_filename, &b.first_filename)
        && eq_path(&a.second_filename, &b.second_filename)
        && a.filestore_message == b.filestore_message
}
pub fn eq_tlv(a: &MetadataTLV, b: &MetadataTLV) -> bool {
    match (a, b) {
        (MetadataTLV::FileStoreRequest(x), MetadataTLV::FileStoreRequest(y)) => eq_fsreq(x, y),
        (MetadataTLV::FileStoreResponse(x), MetadataTLV::FileStoreResponse(y)) => eq_fsresp(x, y),
        (MetadataTLV::MessageToUser(x), MetadataTLV::MessageToUser(y)) => x == y,
        (MetadataTLV::FaultHandlerOverride(x), MetadataTLV::FaultHandlerOverride(y)) => x == y,
        (MetadataTLV::FlowLabel(x), MetadataTLV::FlowLabel(y)) => x == y,
        (MetadataTLV::EntityID(x), MetadataTLV::EntityID(y)) => x == y,
        _ => false,
    }
}
pub fn eq_finished(a: &Finished, b: &Finished) -> bool {
    if !(a.condition == b.condition
        && a.delivery_code == b.delivery_code
        && a.file_status == b.file_status
        && a.fault_location == b.fault_location
        && a.filestore_response.len() == b.filestore_response.len())
    {
        return false;
    }
    let n = a.filestore_response.len();
    let mut i = 0;
    while i < n {
        if !eq_fsresp(&a.filestore_response[i], &b.filestore_response[i]) {
            return false;
        }
        i += 1;
    }
    true
}
pub fn eq_metadata(a: &MetadataPDU, b: &MetadataPDU) -> bool {
    if !(a.closure_requested == b.closure_requested
        && a.checksum_type == b.checksum_type
        && a.file_size == b.file_size
        && eq_path(&a.source_filename, &b.source_filename)
        && eq_path(&a.destination_filename, &b.destination_filename)
        && a.options.len() == b.options.len())
    {
        return false;
    }
    let n = a.options.len();
    let mut i = 0;
    while i < n {
        if !eq_tlv(&a.options[i], &b.options[i]) {
            return false;
        }
        i += 1;
    }
    true
}
pub fn eq_ops(a: &Operations, b: &Operations) -> bool {
    match (a, b) {
        (Operations::EoF(x), Operations::EoF(y)) => x == y,
        (Operations::Finished(x), Operations::Finished(y)) => eq_finished(x, y),
        (Operations::Ack(x), Operations::Ack(y)) => x == y,
        (Operations::Metadata(x), Operations::Metadata(y)) => eq_metadata(x, y),
        (Operations::Nak(x), Operations::Nak(y)) => x == y,
        (Operations::Prompt(x), Operations::Prompt(y)) => x == y,
        (Operations::KeepAlive(x), Operations::KeepAlive(y)) => x == y,
        _ => false,
    }
}
pub fn eq_payload(a: &PDUPayload, b: &PDUPayload) -> bool {
    match (a, b) {
        (PDUPayload::Directive(x), PDUPayload::Directive(y)) => eq_ops(x, y),
        (PDUPayload::FileData(x), PDUPayload::FileData(y)) => x == y,
        _ => false,
    }
}
pub fn eq_pdu(a: &PDU, b: &PDU) -> bool {
    a.header == b.header && eq_payload(&a.payload, &b.payload)
}
/// Equality on user operations.  Kinds carrying file names are compared field-wise; the three
/// kinds with private fields (SFORequest, SFOReport, ProxySegmentationControl) fall back to the
/// derived `==` (for SFORequest that is path-component equality; its harnesses therefore use
/// names of at most one octet).
pub fn eq_userop(a: &UserOperation, b: &UserOperation) -> bool {
    use ProxyOperation as P;
    use UserOperation as U;
    use UserRequest as Q;
    use UserResponse as R;
    match (a, b) {
        (U::ProxyOperation(P::ProxyPutRequest(x)), U::ProxyOperation(P::ProxyPutRequest(y))) => {
            x.destination_entity_id == y.destination_entity_id
                && eq_path(&x.source_filename, &y.source_filename)
                && eq_path(&x.destination_filename, &y.destination_filename)
        }
        (
            U::ProxyOperation(P::ProxyFileStoreRequest(x)),
            U::ProxyOperation(P::ProxyFileStoreRequest(y)),
        ) => eq_fsreq(x, y),
        (U::Response(R::ProxyFileStore(x)), U::Response(R::ProxyFileStore(y))) => eq_fsresp(x, y),
        (U::Response(R::DirectoryListing(x)), U::Response(R::DirectoryListing(y))) => {
            x.response_code == y.response_code
                && eq_path(&x.directory_name, &y.directory_name)
                && eq_path(&x.directory_filename, &y.directory_filename)
        }
        (U::Request(Q::DirectoryListing(x)), U::Request(Q::DirectoryListing(y))) => {
            eq_path(&x.directory_name, &y.directory_name)
                && eq_path(&x.directory_filename, &y.directory_filename)
        }
        (U::Request(Q::RemoteStatusReport(x)), U::Request(Q::RemoteStatusReport(y))) => {
            x.source_entity_id == y.source_entity_id
                && x.transaction_sequence_number == y.transaction_sequence_number
                && eq_path(&x.report_filename, &y.report_filename)
        }
        (U::SFOFileStoreRequest(x), U::SFOFileStoreRequest(y)) => eq_fsreq(x, y),
        (U::SFOFileStoreResponse(x), U::SFOFileStoreResponse(y)) => eq_fsresp(x, y),
        // path-carrying kinds must never reach the derived comparison with a different kind
        (U::ProxyOperation(P::ProxyPutRequest(_)), _)
        | (U::ProxyOperation(P::ProxyFileStoreRequest(_)), _)
        | (U::Response(R::ProxyFileStore(_)), _)
        | (U::Response(R::DirectoryListing(_)), _)
        | (U::Request(Q::DirectoryListing(_)), _)
        | (U::Request(Q::RemoteStatusReport(_)), _)
        | (U::SFOFileStoreRequest(_), _)
        | (U::SFOFileStoreResponse(_), _) => false,
        (x, y) => x == y,
    }
}

// ---------------------------------------------------------------------------------------------
// Wire buffers.
//
// CBMC's symbolic execution only keeps an octet "concrete" (constant-propagated) when it is read
// from a small fixed-size array at a constant index.  An octet that went through `Vec` growth
// (`realloc` + memcpy), as every octet of `encode()`'s result has, is opaque to it even when it is
// semantically a constant; if such an octet is a LENGTH the decoder's allocation/copy/loop sizes
// become symbolic and verification blows up (or produces spurious counterexamples).  Therefore a
// decoder is always run on a `Wire`: a fixed `[u8; WMAX]` array into which the octets are copied
// and in which every length-determining octet is PINNED to the constant the shape dictates --
// after *checking* that the octet really has that value.
// ---------------------------------------------------------------------------------------------
pub const WMAX: usize = 64;
pub const WBIG: usize = 320;

pub struct Wire {
    pub w: [u8; WMAX],
    pub n: usize,
}
impl Wire {
    pub fn as_slice(&self) -> &[u8] {
        &self.w[..self.n]
    }
}
pub struct WireBig {
    pub w: [u8; WBIG],
    pub n: usize,
}
impl WireBig {
    pub fn as_slice(&self) -> &[u8] {
        &self.w[..self.n]
    }
}

/// Template octet i of the wire is `(pool[i] & and) | or`; `(0, c)` is the concrete octet c,
/// `(0xff, 0)` a free octet.
pub type Tpl = [(u8, u8)];
/// `(position, value)` of a length-determining (or otherwise constant) octet of an encoding.
pub type Pins = [(usize, u8)];

pub fn wire_from_tpl(t: &Tpl, v: &[u8]) -> Wire {
    let mut w = [0u8; WMAX];
    let n = t.len();
    let mut i = 0;
    while i < n {
        w[i] = (v[i] & t[i].0) | t[i].1;
        i += 1;
    }
    Wire { w, n }
}
pub fn wirebig_from_tpl(t: &Tpl, v: &[u8]) -> WireBig {
    let mut w = [0u8; WBIG];
    let n = t.len();
    let mut i = 0;
    while i < n {
        w[i] = (v[i] & t[i].0) | t[i].1;
        i += 1;
    }
    WireBig { w, n }
}

/// Copy the first `n` octets of an encoding into a fresh wire buffer (caller has checked
/// `enc.len() == n <= WMAX`).  NB: returns the struct itself, never an `Option`/`Result` of it --
/// moving a value out of an enum goes through a union in Kani's encoding and CBMC then loses the
/// constants stored in it.
pub fn wire_from_enc(enc: &[u8], n: usize) -> Wire {
    let mut w = [0u8; WMAX];
    let mut i = 0;
    while i < n {
        w[i] = enc[i];
        i += 1;
    }
    Wire { w, n }
}
pub fn wirebig_from_enc(enc: &[u8], n: usize) -> WireBig {
    let mut w = [0u8; WBIG];
    let mut i = 0;
    while i < n {
        w[i] = enc[i];
        i += 1;
    }
    WireBig { w, n }
}

/// Check that every pinned octet has the value the shape dictates, then overwrite it with that
/// constant (a semantic no-op that makes the octet concrete for symbolic execution).
/// Returns false on the first pin that does not hold.
pub fn pin(w: &mut [u8], pins: &Pins) -> bool {
    let mut k = 0;
    let mut ok = true;
    while k < pins.len() {
        let (pos, val) = pins[k];
        if w[pos] != val {
            ok = false;
        }
        w[pos] = val;
        k += 1;
    }
    ok
}

/// `(position, mask, value, want_equal)`: the wire octet at `position` must satisfy
/// `(octet & mask == value) == want_equal`, otherwise the input is outside the harness's class.
pub type Guards = [(usize, u8, u8, bool)];
pub fn guards_hold(w: &[u8], g: &Guards) -> bool {
    let mut k = 0;
    while k < g.len() {
        let (pos, mask, val, want) = g[k];
        if ((w[pos] & mask) == val) != want {
            return false;
        }
        k += 1;
    }
    true
}
