#!/bin/bash
# usage: confirm_seed.sh <dir with patch.diff demo.diff meta.json> <name>
# Confirms in a scratch worktree: with patch -> compiles, suite passes (except baseline-flaky f1s08/09/10), demo FAILS; without patch -> demo PASSES.
D=$1; NAME=$2
WT=/tmp/confirm_$NAME
export CARGO_NET_OFFLINE=true CARGO_TARGET_DIR=/tmp/confirm_target_$NAME
git -C /repo worktree add --detach $WT HEAD -q || exit 3
cp /repo/Cargo.lock $WT/
cd $WT
DEMO=$(python3 -c "import json;print(json.load(open('$D/meta.json'))['demo_test'].split('::')[-1])")
OUT=/verif/seeded/$NAME
mkdir -p $OUT
cp $D/patch.diff $D/demo.diff $D/meta.json $OUT/
{
git apply $D/patch.diff || echo "PATCH DOES NOT APPLY"
echo "== suite with patch"
cargo test --workspace --no-fail-fast --offline 2>&1 | grep -E "^test result|^test .* FAILED|^error" 
git apply $D/demo.diff || echo "DEMO DOES NOT APPLY"
echo "== demo with patch (expect FAILED)"
cargo test --workspace --offline $DEMO 2>&1 | grep -E "^test .*$DEMO|panicked|left:|right:" | head -8
git apply -R $D/patch.diff
echo "== demo without patch (expect ok)"
cargo test --workspace --offline $DEMO 2>&1 | grep -E "^test .*$DEMO" | head -4
} > $OUT/confirm.log 2>&1
cd /
git -C /repo worktree remove --force $WT
rm -rf /tmp/confirm_target_$NAME
echo "confirmed $NAME -> $OUT/confirm.log"
