#!/bin/bash
# usage: try_refactor.sh <behaviour-preserving.diff>  -- applies the diff to a scratch copy of /repo and runs the checks that read the touched
# files; a harmless change must give exit 0 (or 2 = undecided), never 1
P=$1
S=/tmp/refactor_try_repo_$$
rm -rf $S; rsync -a --exclude target --exclude .git /repo/ $S/
(cd $S && patch -p1 -s < $P) || { echo "PATCH DOES NOT APPLY"; rm -rf $S; exit 3; }
FILES=$(grep '^+++ b/' $P | sed 's#^+++ b/##')
PROPS=""
for f in $FILES; do
  case $f in
    cfdp-daemon/src/transaction/send.rs) PROPS="$PROPS C03 C04 C07 C10 C17 C18 C19 C20";;
    cfdp-daemon/src/transaction/recv.rs) PROPS="$PROPS C03 C04 C08 C10 C13 C17 C18 C19 C20";;
    cfdp-daemon/src/timer.rs) PROPS="$PROPS C17 C19 C03";;
    cfdp-daemon/src/segments.rs) PROPS="$PROPS C09 C08 C20";;
    cfdp-core/src/filestore.rs) PROPS="$PROPS C12 C13 C14";;
    cfdp-daemon/src/transport.rs) PROPS="$PROPS C16";;
    cfdp-core/src/pdu.rs|cfdp-core/src/pdu/*) PROPS="$PROPS C15 C05 C06";;
  esac
done
PROPS=$(echo $PROPS | tr ' ' '\n' | sort -u | tr '\n' ' ')
echo "files: $FILES -> checks: $PROPS"
for prop in $PROPS; do
  python3 /verif/vp.py check $prop --repo $S 2>&1 | grep "^OK\|^VIOLATION\|^UNDECIDED\|^FAILED" | cut -c1-200
  echo "rc($prop)=${PIPESTATUS[0]}"
done
TAG=$(python3 -c "import hashlib,sys;print(hashlib.sha1(sys.argv[1].encode()).hexdigest()[:8])" $S)
rm -rf $S /verif/build/native_$TAG /verif/build/dnative_$TAG /verif/build/kani/$TAG
