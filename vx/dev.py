"""dev loop: python3 -m vx.dev <unit> [--repo DIR] [--fn NAME]  -> generate, run verus, print human-readable errors"""
import sys, os, subprocess, argparse
from .gen import generate
ap = argparse.ArgumentParser()
ap.add_argument("unit"); ap.add_argument("--repo", default="/repo"); ap.add_argument("--fn"); ap.add_argument("--extra", nargs="*", default=[])
a = ap.parse_args()
V = os.path.dirname(os.path.dirname(os.path.abspath(__file__)))
std = os.path.join(V, "spec", "std_contracts.rs")
g = generate(os.path.join(V, "spec", a.unit + ".vspec"), a.repo, None)
p = os.path.join(V, "build", a.unit + "_dev.rs")
os.makedirs(os.path.dirname(p), exist_ok=True)
open(p, "w").write(g.text)
cmd = ["verus", p, "--multiple-errors", "30", "--time", "--num-threads", "8"] + (["--verify-function", a.fn, "--verify-root"] if a.fn else []) + a.extra
r = subprocess.run(cmd, capture_output=True, text=True)
import re
txt = r.stderr
txt = re.sub(r"note: automatically chose triggers.*?(?=\n(?:error|warning|note: (?!  )|verification results))", "", txt, flags=re.S)
print(txt[-9000:]); print("\n".join(l for l in r.stdout.splitlines() if "verification results" in l or "total-time" in l or "smt-run" in l))
