"""Item-level parser on top of the lexer: finds top-level items and impl members with their spans."""
from .lexer import lex, code_tokens, match_close, OPEN, LexError


class Item:
    def __init__(self):
        self.kind = None        # fn struct enum impl trait mod use const static type macro
        self.name = None
        self.attrs = []         # list of attribute source texts  (#[...])
        self.vis = ""           # "", "pub", "pub(crate)" ...
        self.toks = None        # shared code-token list
        self.a = self.b = 0     # token range of the whole item without attrs/vis [a, b)
        self.first = 0          # token index including attributes
        self.body = None        # (open_idx, close_idx) of the { } body if any
        self.children = []      # impl / trait / mod members
        self.impl_target = None  # for impl: text of self type (first ident path)
        self.impl_trait = None
        self.src = None
        self.path = None

    def text(self, a=None, b=None):
        a = self.a if a is None else a
        b = self.b if b is None else b
        return self.src[self.toks[a].start:self.toks[b - 1].end]

    @property
    def line(self):
        return self.src.count("\n", 0, self.toks[self.a].start) + 1

    @property
    def end_line(self):
        return self.src.count("\n", 0, self.toks[self.b - 1].end) + 1

    def is_test(self):
        return any("cfg(test)" in a.replace(" ", "") for a in self.attrs)

    def __repr__(self):
        return "<%s %s %s:%d>" % (self.kind, self.name, self.path, self.line)


_KW = {"fn", "struct", "enum", "impl", "trait", "mod", "use", "const", "static", "type", "union", "macro_rules", "extern"}


def parse_items(src, path="?", toks=None, lo=0, hi=None):
    if toks is None:
        toks = code_tokens(lex(src))
    if hi is None:
        hi = len(toks)
    out = []
    i = lo
    while i < hi:
        it = Item()
        it.src, it.toks, it.path = src, toks, path
        it.first = i
        # attributes
        while i < hi and toks[i].text == "#":
            j = i + 1
            if toks[j].text == "!":
                j += 1
            assert toks[j].text == "[", (path, toks[j])
            k = match_close(toks, j)
            it.attrs.append(src[toks[i].start:toks[k].end])
            i = k + 1
        if i >= hi:
            break
        # visibility
        if toks[i].text == "pub":
            v = "pub"
            i += 1
            if toks[i].text == "(":
                k = match_close(toks, i)
                v += src[toks[i].start:toks[k].end]
                i = k + 1
            it.vis = v
        it.a = i
        # modifiers
        j = i
        while toks[j].text in ("async", "unsafe", "default") or (toks[j].text == "const" and toks[j + 1].text in ("fn", "unsafe", "async")) or (toks[j].text == "extern" and toks[j + 1].kind == "str" and toks[j + 2].text == "fn"):
            j += 2 if toks[j].text == "extern" else 1
        kw = toks[j].text
        if kw == "fn":
            it.kind = "fn"
            it.name = toks[j + 1].text
            # find body `{` or `;` at bracket depth 0 (generic angle brackets contain no braces except const exprs)
            k = j + 2
            while True:
                t = toks[k]
                if t.text in ("(", "["):
                    k = match_close(toks, k) + 1
                    continue
                if t.text == "{":
                    e = match_close(toks, k)
                    it.body = (k, e)
                    it.b = e + 1
                    break
                if t.text == ";":
                    it.b = k + 1
                    break
                k += 1
        elif kw in ("struct", "enum", "union", "trait", "mod", "impl"):
            it.kind = kw
            k = j + 1
            if kw == "impl":
                # skip generics
                if toks[k].text == "<":
                    k = _skip_angle(toks, k)
                # path [for path]
                start = k
                for_idx = None
                while toks[k].text not in ("{", "where"):
                    if toks[k].text == "for" and for_idx is None:
                        for_idx = k
                    if toks[k].text in ("(", "["):
                        k = match_close(toks, k)
                    k += 1
                if for_idx is not None:
                    it.impl_trait = src[toks[start].start:toks[for_idx - 1].end]
                    tstart = for_idx + 1
                else:
                    tstart = start
                it.impl_target = _first_path_ident(toks, tstart)
                it.name = it.impl_target
            else:
                it.name = toks[k].text
            while True:
                t = toks[k]
                if t.text in ("(", "["):
                    k = match_close(toks, k) + 1
                    continue
                if t.text == "{":
                    e = match_close(toks, k)
                    it.body = (k, e)
                    it.b = e + 1
                    break
                if t.text == ";":
                    it.b = k + 1
                    break
                k += 1
            # tuple struct: `struct X(..);`
            if kw == "struct" and it.body is None:
                pass
            if kw in ("impl", "trait", "mod") and it.body:
                it.children = parse_items(src, path, toks, it.body[0] + 1, it.body[1])
                for c in it.children:
                    c.parent = it
        elif kw in ("use", "const", "static", "type", "extern"):
            it.kind = kw
            it.name = toks[j + 1].text if kw != "use" else None
            k = j
            while toks[k].text != ";":
                if toks[k].text in OPEN:
                    k = match_close(toks, k)
                k += 1
            it.b = k + 1
        elif toks[j].kind == "ident" and toks[j + 1].text == "!":
            it.kind = "macro"
            it.name = toks[j].text
            k = j + 2
            if toks[k].kind == "ident":
                it.name = toks[k].text
                k += 1
            e = match_close(toks, k)
            it.b = e + 1
            if toks[k].text != "{" and e + 1 < hi and toks[e + 1].text == ";":
                it.b = e + 2
        else:
            raise LexError("%s: cannot parse item at line %d: %r" % (path, src.count("\n", 0, toks[j].start) + 1, toks[j].text))
        out.append(it)
        i = it.b
    return out


def _skip_angle(toks, k):
    assert toks[k].text == "<"
    depth = 0
    while True:
        t = toks[k].text
        if t == "<":
            depth += 1
        elif t == "<<":
            depth += 2
        elif t == ">":
            depth -= 1
        elif t == ">>":
            depth -= 2
        elif t in ("(", "["):
            k = match_close(toks, k)
        k += 1
        if depth <= 0:
            return k


def _first_path_ident(toks, k):
    # last segment of the leading path, e.g. `crate::a::B<T>` -> B ; `&'a mut X` -> X
    while toks[k].text in ("&", "mut", "dyn") or toks[k].kind == "lifetime":
        k += 1
    name = toks[k].text
    while toks[k + 1].text == "::" and toks[k + 2].kind == "ident":
        k += 2
        name = toks[k].text
    return name


def parse_file(path, root):
    import os
    full = os.path.join(root, path)
    src = open(full).read()
    items = parse_items(src, path)
    return src, items
