"""Extractor + contract injector: .vspec + /repo source  ->  one Verus file.

Everything that is not an insertion recorded in the .vspec or one of the fixed rules R1..R9 (DESIGN.md 3.2)
is the token stream of /repo's source.  `Generated.check_roundtrip()` removes the insertions again and
compares with the source tokens (rules R1-R4, R9 and declared rewrites are undone by re-applying them to
the source side), so a bug in the injector cannot silently change the verified text.
"""
import os
import re
from .lexer import lex, code_tokens, match_close, norm, Tok, OPEN, CLOSE, LexError
from .items import parse_items
from . import vspec as V


class ExtractError(Exception):
    """lost anchor / item not found / unsupported shape  -> exit 2 (undecided), never a violation"""


LOG_MACROS = {"debug", "info", "warn", "error", "trace"}


class Repo:
    def __init__(self, root):
        self.root = root
        self.cache = {}

    def file(self, rel):
        if rel not in self.cache:
            full = os.path.join(self.root, rel)
            if not os.path.exists(full):
                raise ExtractError("source file %s not found" % rel)
            src = open(full).read()
            try:
                self.cache[rel] = (src, parse_items(src, rel))
            except (LexError, AssertionError, IndexError) as e:
                raise ExtractError("cannot parse %s: %s" % (rel, e))
        return self.cache[rel]

    def find(self, rel, kind, name, impl=None):
        src, items = self.file(rel)
        cands = []
        for it in items:
            if it.is_test():
                continue
            if impl is None:
                if it.kind == kind and it.name == name:
                    cands.append(it)
            elif it.kind == "impl" and it.impl_target == impl and it.impl_trait is None:
                for c in it.children:
                    if c.kind == kind and c.name == name:
                        cands.append(c)
            elif it.kind == "impl" and it.impl_trait is not None and impl.replace(" ", "") in (
                    ("%s for %s" % (it.impl_trait.split("<")[0].strip(), it.impl_target)).replace(" ", ""),
                    norm(it.text(it.a, it.body[0])).replace(" ", "")[len("impl"):]):
                for c in it.children:
                    if c.kind == kind and c.name == name:
                        cands.append(c)
        if len(cands) != 1:
            raise ExtractError("%s: expected exactly one %s %s%s, found %d" % (rel, kind, (impl + "::") if impl else "", name, len(cands)))
        return cands[0]


class Out:
    """generated text with a line -> (file, line, fn) source map"""

    def __init__(self):
        self.parts = []
        self.map = {}          # generated line (1-based) -> dict
        self.line = 1

    def add(self, text, origin=None):
        # origin: (file, first_src_line, qualname, obligations, kind) ; src lines advance with newlines of *source* chunks
        self.parts.append(text)
        n = text.count("\n")
        if origin:
            for k in range(n + 1):
                self.map.setdefault(self.line + k, origin)
        self.line += n

    def text(self):
        return "".join(self.parts)


def find_seq(toks, lo, hi, pat, k=1):
    """k-th occurrence (1-based) of token-text sequence `pat` within toks[lo:hi]; returns start index"""
    n = len(pat)
    seen = 0
    for i in range(lo, hi - n + 1):
        if toks[i].text == pat[0] and all(toks[i + j].text == pat[j] for j in range(n)):
            seen += 1
            if seen == k:
                return i
    return None


def pat_of(text):
    return [t.text for t in code_tokens(lex(text))]


_OPEN = {"(": ")", "[": "]", "{": "}"}


def find_seq_wild(toks, lo, hi, pat, k=1):
    """like find_seq, but pattern tokens `__1`, `__2`, .. match a non-empty, bracket-balanced run of tokens that ends where the next
    pattern token matches at depth 0.  Returns (start, end, {name: (a, b)}) or None."""
    def match_at(i, pj, binds):
        while pj < len(pat):
            pt = pat[pj]
            if pt.startswith("__") and pt[2:].isdigit():
                if pj + 1 >= len(pat):
                    return None
                nxt = pat[pj + 1]
                depth, j = 0, i
                while j < hi:
                    tt = toks[j].text
                    if depth == 0 and j > i and tt == nxt:
                        r = match_at(j, pj + 1, dict(binds, **{pt: (i, j)}))
                        if r is not None:
                            return r
                    if tt in _OPEN:
                        depth += 1
                    elif tt in _OPEN.values():
                        depth -= 1
                        if depth < 0:
                            return None
                    elif tt == ";" and depth == 0:
                        return None
                    j += 1
                return None
            if i >= hi or toks[i].text != pt:
                return None
            i += 1
            pj += 1
        return (i, binds)
    seen = 0
    for i in range(lo, hi):
        if toks[i].text != pat[0]:
            continue
        r = match_at(i, 0, {})
        if r is not None:
            seen += 1
            if seen == k:
                return (i, r[0], r[1])
    return None


class Edits:
    def __init__(self):
        self.before = {}     # token idx -> [text]
        self.after = {}
        self.repl = []       # (i, j, text)  replaces toks[i:j]
        self.log = []        # human readable list of applied rules

    def ins_before(self, i, text):
        self.before.setdefault(i, []).append(text)

    def ins_after(self, i, text):
        self.after.setdefault(i, []).append(text)

    def replace(self, i, j, text):
        for (a, b, _) in self.repl:
            if not (j <= a or b <= i):
                raise ExtractError("overlapping rewrites at token %d" % i)
        self.repl.append((i, j, text))


def render(item, a, b, ed):
    """source text of toks[a:b] with comments removed (newlines kept) and edits applied"""
    toks, src = item.toks, item.src
    out = []
    repl = {i: (j, t) for (i, j, t) in ed.repl}
    i = a
    while i < b:
        for t in ed.before.get(i, []):
            out.append(t)
        if i in repl:
            j, t = repl[i]
            out.append(t)
            # keep line structure
            out.append("\n" * src.count("\n", toks[i].start, toks[j - 1].end))
            last = j - 1
            i = j
        else:
            out.append(toks[i].text)
            last = i
            i += 1
        for t in ed.after.get(last, []):
            out.append(t)
        if i < b:
            gap = src[toks[last].end:toks[i].start]
            out.append(_gap(gap))
    return "".join(out)


def _gap(gap):
    if "/" not in gap:
        return gap
    # a comment sits in the gap: drop it, keep the line structure
    nl = gap.count("\n")
    return "\n" * nl if nl else " "


def apply_fixed_rules(item, lo, hi, ed, counts):
    """R1 R2 R3 R4 R9 on toks[lo:hi]"""
    toks = item.toks
    i = lo
    taken = sorted((a, b) for (a, b, _) in ed.repl)
    while i < hi:
        skip = [b for (a, b) in taken if a <= i < b]
        if skip:
            i = skip[0]
            continue
        t = toks[i]
        nxt = toks[i + 1].text if i + 1 < hi else ""
        if t.kind == "ident" and nxt == "!" and i + 2 < hi and toks[i + 2].text in OPEN:
            close = match_close(toks, i + 2)
            if t.text == "assert":
                # R1: first top-level argument is the condition
                j = i + 3
                depth = 0
                while j < close:
                    x = toks[j].text
                    if x in OPEN:
                        j = match_close(toks, j)
                    elif x == ",":
                        break
                    j += 1
                cond = item.src[toks[i + 3].start:toks[j - 1].end]
                ed.replace(i, close + 1, "rt_assert(%s)" % cond)
                counts["R1 assert! -> rt_assert"] = counts.get("R1 assert! -> rt_assert", 0) + 1
                i = close + 1
                continue
            if t.text in LOG_MACROS and (toks[i - 1].text in ("{", "}", ";") or toks[i - 1].text == "=>"):
                end = close + 1
                if toks[i - 1].text == "=>":
                    ed.replace(i, end, "()")
                elif end < hi and toks[end].text == ";":
                    ed.replace(i, end + 1, "")
                else:
                    ed.replace(i, end, "()")
                counts["R2 log macro removed"] = counts.get("R2 log macro removed", 0) + 1
                i = end
                continue
        if t.text == "map_err" and nxt == "(":
            close = match_close(toks, i + 1)
            inner = toks[i + 2:close]
            if inner and all((x.kind == "ident") if k % 2 == 0 else x.text == "::" for k, x in enumerate(inner)) and len(inner) % 2 == 1 and inner[-1].text[0].isupper():
                path = "".join(x.text for x in inner)
                ed.replace(i + 2, close, "|e| %s(e)" % path)
                counts["R3 ctor-as-fn -> closure"] = counts.get("R3 ctor-as-fn -> closure", 0) + 1
                i = close
                continue
        if t.text == "for" and nxt == "_" and toks[i + 2].text == "in":
            ed.replace(i + 1, i + 2, "_i")
            counts["R4 for _ -> for _i"] = counts.get("R4 for _ -> for _i", 0) + 1
        if t.text == "Duration" and nxt == "::" and toks[i + 2].text in ("ZERO", "MAX") and toks[i + 3].text != "(":
            ed.replace(i, i + 3, "duration_%s()" % toks[i + 2].text.lower())
            counts["R9 assoc const -> fn"] = counts.get("R9 assoc const -> fn", 0) + 1
            i += 3
            continue
        i += 1


def loops_in(item, lo, hi):
    """indices of loop keywords (while/for/loop) inside toks[lo:hi] in textual order, with their body-open index"""
    toks = item.toks
    res = []
    i = lo
    while i < hi:
        t = toks[i]
        if t.kind == "ident" and t.text in ("while", "for", "loop") and toks[i - 1].text not in (".", "::"):
            if t.text == "for" and toks[i + 1].text == "<":   # for<'a> bound
                i += 1
                continue
            j = i + 1
            while j < hi:
                x = toks[j].text
                if x in ("(", "["):
                    j = match_close(toks, j)
                elif x == "{":
                    break
                j += 1
            res.append((i, j))
        i += 1
    return res


class Generated:
    def __init__(self, unit, text, out, fns, rules, scan):
        self.unit = unit
        self.text = text
        self.map = out.map
        self.fns = fns              # list of dicts: qual, file, line, end_line, obligations, external
        self.rules = rules          # {rule: count}
        self.scan = scan            # {external_body: [...], assume_specification: [...], assume: n, admit: n, axiom: [...]}


def generate(spec_path, root, std_contracts_path=None):
    unit = V.parse(spec_path)
    repo = Repo(root)
    out = Out()
    rules = {}
    fns = []
    tail_items = []
    out.add("// GENERATED by /verif/vx from %s and %s -- do not edit\n" % (os.path.basename(spec_path), root))
    out.add("#![feature(allocator_api)]\n#![allow(unused_imports, unused_variables, dead_code, unused_mut, unused_assignments, non_snake_case, unreachable_code)]\n")
    out.add("use vstd::prelude::*;\n")
    out.add(unit.uses)
    out.add("\nverus! {\n\n")
    if std_contracts_path:
        out.add("// ---- std contracts (assumed) ----\n")
        out.add(open(std_contracts_path).read() + "\n")
    for label, text in unit.prelude:
        out.add("// ---- prelude: %s ----\n" % label, ("spec:" + label, 1, None, [], "prelude"))
        out.add(text + "\n", ("spec:" + label, 1, None, [], "prelude"))
    out.add("\n// ---- extracted from %s ----\n" % root)
    for entry in unit.items:
        kind = entry[0]
        if kind == "opaque_type":
            # the type itself is declared outside verus!{} (see the file tail); inside it is an opaque external type
            out.add("#[verifier::external_type_specification] #[verifier::external_body] pub struct Ex%s(%s);\n\n" % (entry[2], entry[2]))
            tail_items.append("#[derive(Clone, PartialEq, Eq)] pub struct %s;\n" % entry[2])
        elif kind == "trait_stub":
            out.add("pub trait %s {}\n\n" % entry[2])
            rules["R5 trait body dropped (%s)" % entry[2]] = 1
        elif kind in ("struct", "enum"):
            it = repo.find(entry[1], kind, entry[2])
            _emit_type(unit, it, out, rules)
        elif kind == "type":
            it = repo.find(entry[1], "type", entry[2])
            out.add("pub " + render(it, it.a, it.b, Edits()) + "\n\n", (it.path, it.line, it.name, [], "type"))
        elif kind == "fn":
            fs = entry[2]
            it = repo.find(fs.file, "fn", fs.name, fs.impl)
            fns.append(_emit_fn(unit, fs, it, out, rules))
    out.add("\n} // verus!\n\n" + "".join(tail_items) + unit.tail + "fn main() {}\n")
    text = out.text()
    scan = scan_assumptions(text)
    # text that came from /repo (for "is this assumed contract actually used" in the evidence)
    lines = text.split("\n")
    extracted = "\n".join(l for n, l in enumerate(lines, 1) if n in out.map and out.map[n][4] in ("fn", "external"))
    scan["used_assume_specification"] = [x for x in scan["assume_specification"] if re.split(r"::|>", x)[-1].strip() + "(" in extracted.replace(" (", "(")]
    return Generated(unit, text, out, fns, rules, scan)


def _bump(rules, k, n=1):
    rules[k] = rules.get(k, 0) + n


def _emit_type(unit, it, out, rules):
    toks, src = it.toks, it.src
    ed = Edits()
    origin = (it.path, it.line, it.name, [], it.kind)
    derives = []
    for a in it.attrs:
        m = re.match(r"#\[derive\((.*)\)\]", a.replace("\n", " "))
        if m:
            derives += [d.strip() for d in m.group(1).split(",") if d.strip()]
    keep = [d for d in derives if d in ("Clone", "Copy", "PartialEq", "Eq", "Hash")]
    dropped = [d for d in derives if d not in keep]
    if it.attrs:
        _bump(rules, "R5 attributes dropped/re-emitted")
    head = ""
    if it.kind == "enum" and "PartialEq" in keep and it.body:
        inner = [t.text for t in toks[it.body[0] + 1:it.body[1]]]
        if "(" not in inner and "{" not in inner:
            if "Eq" not in keep:
                keep.append("Eq")           # marker trait, sound for a field-less enum with derived PartialEq
            keep.append("Structural")       # field-less enum: `==` is structural equality (what derive(PartialEq) generates)
            _bump(rules, "R5 derive(PartialEq, Eq) on field-less enum re-emitted with Verus' Structural")
    clone_impl = ""
    if "Clone" in keep and "<" not in it.text(it.a, it.body[0] if it.body else it.b):
        # derive(Clone) carries no specification in Verus; re-emit it as the ASSUMED contract "clone() returns an equal value"
        keep.remove("Clone")
        clone_impl = ("impl Clone for %s {\n    #[verifier::external_body]\n    fn clone(&self) -> (r: Self)\n        ensures r == *self,\n    { unimplemented!() }\n}\n\n" % it.name)
        _bump(rules, "R5 derive(Clone) re-emitted as assumed contract clone() == self")
    if keep:
        head += "#[derive(%s)]\n" % ", ".join(keep)
    vis = "pub "
    if it.kind == "struct":
        # fields
        if it.body:
            o, c = it.body
            _fields(unit, it, o, c, ed, rules, named=True)
        else:
            # tuple struct
            k = it.a
            while toks[k].text != "(":
                k += 1
            c = match_close(toks, k)
            _fields(unit, it, k, c, ed, rules, named=False)
    out.add(head + vis + render(it, it.a, it.b, ed) + "\n\n", origin)
    if clone_impl:
        out.add(clone_impl)
    if it.vis != "pub":
        _bump(rules, "R8 visibility widened to pub")


def _split_top(toks, lo, hi):
    """split toks[lo:hi] at top-level commas (angle brackets counted)"""
    parts, start, i, angle = [], lo, lo, 0
    while i < hi:
        x = toks[i].text
        if x in OPEN:
            i = match_close(toks, i)
        elif x == "<":
            angle += 1
        elif x == ">":
            angle -= 1
        elif x == ">>":
            angle -= 2
        elif x == "," and angle == 0:
            parts.append((start, i))
            start = i + 1
        i += 1
    if start < hi:
        parts.append((start, hi))
    return parts


def _fields(unit, it, o, c, ed, rules, named):
    toks, src = it.toks, it.src
    for (a, b) in _split_top(toks, o + 1, c):
        i = a
        # attributes
        while toks[i].text == "#":
            k = match_close(toks, i + 1)
            ed.replace(i, k + 1, "")
            i = k + 1
        if toks[i].text == "pub":
            if toks[i + 1].text == "(":
                k = match_close(toks, i + 1)
                ed.replace(i, k + 1, "pub")
                _bump(rules, "R8 visibility widened to pub")
                i = k + 1
            else:
                i += 1
        else:
            ed.ins_before(i, "pub ")
            _bump(rules, "R8 visibility widened to pub")
        if named:
            fname = toks[i].text
            assert toks[i + 1].text == ":", (it, toks[i + 1])
            ts = i + 2
        else:
            fname = "?"
            ts = i
        ttext = norm(src[toks[ts].start:toks[b - 1].end]).replace(" ", "")
        for pre in unit.opaque:
            if ttext.startswith(pre.replace(" ", "")) or ("%s.%s" % (it.name, fname)) == pre:
                ed.replace(ts, b, "Opaque")
                _bump(rules, "R6 field type -> Opaque (%s.%s: %s)" % (it.name, fname, ttext))
                break


def _ret_type_text(item):
    """text of the return type of fn item ('' when it returns ())"""
    toks = item.toks
    k = item.a
    while toks[k].text != "fn":
        k += 1
    k += 2
    if toks[k].text == "<":
        return None
    pc = match_close(toks, k)
    if toks[pc + 1].text != "->":
        return ""
    j = pc + 2
    out = []
    while j < item.body[0] and toks[j].text != "where":
        out.append(toks[j].text)
        j += 1
    return " ".join(out)


def _body_rules(unit, item, lo, hi, ed, rules, counts, outer_ret, depth):
    """the body-level rewrites every extracted body gets (declared unit rewrites, opaque constructor calls, R10, fixed rules)"""
    toks = item.toks
    for (old, new) in unit.rewrites:
        p = pat_of(old)
        kk = 1
        while True:
            m = find_seq_wild(toks, lo, hi, p, kk)
            if m is None:
                break
            s, e, binds = m
            text = new
            for (nm, (wa, wb)) in binds.items():
                text = text.replace(nm, " ".join(t.text for t in toks[wa:wb]))
            ed.replace(s, e, text)
            _bump(rules, "declared unit rewrite `%s` => `%s`" % (old, new))
            kk += 1
    for (path, stub) in unit.opaque_calls:
        pp = pat_of(path)
        kk = 1
        while True:
            s0 = find_seq(toks, lo, hi, pp, kk)
            if s0 is None:
                break
            kk += 1
            e0 = s0 + len(pp)
            if toks[e0].text != "(":
                continue
            close = match_close(toks, e0)
            if any(a <= s0 < b for (a, b, _) in ed.repl):
                continue
            ed.replace(s0, close + 1, stub)
            _bump(rules, "declared opaque constructor call `%s(..)` => `%s`" % (path, stub))
    for (anchor, params, ret, ens) in unit.closures_all:
        p = pat_of(anchor)
        kk = 1
        while True:
            s = find_seq(toks, lo, hi, p, kk)
            if s is None:
                break
            kk += 1
            if any(a <= s < b for (a, b, _) in ed.repl):
                continue
            _annotate_closure(item, s, len(p), params, ret, ens, ed, "unit-wide closure contract")
            _bump(rules, "closure contract injected (unit-wide): `%s`" % anchor)


def _annotate_closure(item, s, plen, params, ret, ens, ed, qual):
    toks = item.toks
    if toks[s].text == "||":
        pe = s
    else:
        if toks[s].text != "|":
            raise ExtractError("%s: closure anchor must start with `|`" % qual)
        pe = s + 1
        while toks[pe].text != "|":
            pe += 1
    if params:
        # names must be preserved
        orig_names = [t.text for t in toks[s + 1:pe] if t.kind == "ident"]
        new_names = [t.text for t in code_tokens(lex(params)) if t.kind == "ident"]
        if not all(nm in new_names for nm in orig_names):
            raise ExtractError("%s: closure params `%s` do not keep the original names %s" % (qual, params, orig_names))
        ed.replace(s, pe + 1, params + (" -> %s" % ret if ret else "") + ("\n ensures " + ens.strip() + "\n" if ens.strip() else "") + " {")
    else:
        ed.ins_after(pe, (" -> %s" % ret if ret else "") + ("\n ensures " + ens.strip() + "\n" if ens.strip() else "") + " {")
    ed.ins_after(s + plen - 1, " }")


def _inline_helpers(unit, item, lo, hi, ed, rules, counts, outer_ret, depth=0):
    """R10: a call `self.NAME(args)` to a method of the same inherent impl that the unit does not list (a helper split off by a
    refactoring) is replaced by the helper's body, `({ let vx_inlined: Ret = { let (params): (types) = (args); <body> }; vx_inlined })`, when that is semantics-preserving by
    construction: no generics, receiver `self`/`&self`/`&mut self`, simple `name: Type` parameters, no `return`, no loop, and a `?`
    inside the body only if the call itself is followed by `?` and helper and caller both return TransactionResult<_>.  The helper body
    gets the same rewrites as any extracted body.  Anything else raises ExtractError (undecided), exactly as before this rule."""
    toks = item.toks
    parent = getattr(item, "parent", None)
    if parent is None or parent.impl_trait is not None:
        return
    known = set()
    for e in unit.items:
        if e[0] == "fn" and e[2].impl == parent.impl_target:
            known.add(e[2].name)
    members = {}
    for c in parent.children:
        if c.kind == "fn":
            members[c.name] = c
    i = lo
    while i < hi - 3:
        if (toks[i].text == "self" and toks[i + 1].text == "." and toks[i + 2].kind == "ident" and toks[i + 3].text == "("
                and toks[i - 1].text not in (".", "::") and toks[i + 2].text in members and toks[i + 2].text not in known
                and not any(a <= i < b for (a, b, _) in ed.repl)):
            name = toks[i + 2].text
            close = match_close(toks, i + 3)
            text = _inline_text(unit, item, members[name], i + 3, close, rules, counts, outer_ret, depth)
            ed.replace(i, close + 1, text)
            _bump(rules, "R10 unlisted helper inlined at its call: %s::%s" % (parent.impl_target, name))
            i = close + 1
            continue
        i += 1


def _inline_text(unit, caller, helper, popen, pclose, rules, counts, outer_ret, depth):
    qual = "%s (helper not listed in the unit)" % helper.name
    if depth > 3:
        raise ExtractError("%s: helper nesting too deep" % qual)
    if helper.body is None or "async" in [t.text for t in helper.toks[helper.a:helper.body[0]]]:
        raise ExtractError("%s: not an ordinary method" % qual)
    ht = helper.toks
    k = helper.a
    while ht[k].text != "fn":
        k += 1
    k += 2
    if ht[k].text != "(":
        raise ExtractError("%s: generic helper cannot be inlined" % qual)
    pc = match_close(ht, k)
    params = _split_top(ht, k + 1, pc)
    if not params:
        raise ExtractError("%s: no receiver" % qual)
    recv = " ".join(t.text for t in ht[params[0][0]:params[0][1]])
    if recv not in ("self", "& self", "& mut self", "mut self"):
        raise ExtractError("%s: receiver `%s` cannot be inlined" % (qual, recv))
    names, types = [], []
    for (a, b) in params[1:]:
        j = a
        mut = ""
        if ht[j].text == "mut":
            mut = "mut "
            j += 1
        if ht[j].kind != "ident" or ht[j + 1].text != ":":
            raise ExtractError("%s: parameter pattern cannot be inlined" % qual)
        names.append(mut + ht[j].text)
        types.append(helper.src[ht[j + 2].start:ht[b - 1].end])
    ct = caller.toks
    args = _split_top(ct, popen + 1, pclose)
    if len(args) != len(names):
        raise ExtractError("%s: argument count mismatch" % qual)
    for (a, b) in args:
        if any(t.text == "!" for t in ct[a:b]):
            raise ExtractError("%s: macro in an argument" % qual)
    hb0, hb1 = helper.body
    body_toks = [t.text for t in ht[hb0 + 1:hb1]]
    for bad in ("return", "while", "for", "loop", "break", "continue", "await"):
        if bad in body_toks:
            raise ExtractError("%s: body contains `%s`" % (qual, bad))
    hret = _ret_type_text(helper)
    if "?" in body_toks:
        if ct[pclose + 1].text != "?" or not (hret or "").startswith("TransactionResult") or not (outer_ret or "").startswith("TransactionResult"):
            raise ExtractError("%s: `?` inside the helper cannot be carried to the call site" % qual)
    sub = Edits()
    _body_rules(unit, helper, hb0 + 1, hb1, sub, rules, counts, outer_ret, depth + 1)
    _inline_helpers(unit, helper, hb0 + 1, hb1, sub, rules, counts, outer_ret, depth + 1)
    apply_fixed_rules(helper, hb0 + 1, hb1, sub, counts)
    body = render(helper, hb0 + 1, hb1, sub).replace("\n", " ")
    argtext = [caller.src[ct[a].start:ct[b - 1].end].replace("\n", " ") for (a, b) in args]
    if not names:
        bind = ""
    elif len(names) == 1:
        bind = "let %s: %s = %s; " % (names[0], types[0], argtext[0])
    else:
        bind = "let (%s): (%s) = (%s); " % (", ".join(names), ", ".join(types), ", ".join(argtext))
    # the helper's declared return type is ascribed to the block, as the call had it
    return "({ let vx_inlined: %s = { %s%s }; vx_inlined })" % (hret if hret else "()", bind, body)


def _emit_fn(unit, fs, it, out, rules):
    toks, src = it.toks, it.src
    ed = Edits()
    counts = {}
    if it.body is None:
        raise ExtractError("%s has no body" % fs.qual)
    bo, bc = it.body
    origin = (it.path, it.line, fs.qual, fs.obligations, "external" if fs.external else "fn")
    # ---- signature
    # locate parameter list
    k = it.a
    while toks[k].text != "fn":
        k += 1
    k += 2
    if toks[k].text == "<":
        depth = 0
        while True:
            x = toks[k].text
            if x == "<":
                depth += 1
            elif x == ">":
                depth -= 1
            elif x == ">>":
                depth -= 2
            k += 1
            if depth <= 0:
                break
    if toks[k].text != "(":
        raise ExtractError("%s: cannot find parameter list" % fs.qual)
    pc = match_close(toks, k)
    if toks[pc + 1].text == "->":
        rs = pc + 2
        re_ = rs
        while re_ < bo and toks[re_].text != "where":
            re_ += 1
        if fs.ret:
            ed.ins_before(rs, "(%s: " % fs.ret)
            ed.ins_after(re_ - 1, ")")
    elif fs.ret:
        raise ExtractError("%s: `ret` given but function returns ()" % fs.qual)
    for (old, new) in fs.sigrewrites:
        p = pat_of(old)
        s = find_seq(toks, it.a, bo, p)
        if s is None:
            raise ExtractError("%s: signature rewrite anchor `%s` not found" % (fs.qual, old))
        ed.replace(s, s + len(p), new)
        _bump(rules, "declared signature rewrite in %s: `%s` => `%s`" % (fs.qual, old, new))
    spec_text = ("\n" + _indent(fs.spec.rstrip(), 8) + "\n    ") if fs.spec.strip() else ""
    attrs = ""
    if fs.external:
        # R7: body dropped
        sig = render(it, it.a, bo, ed)
        out_text = sig + spec_text + "{ unimplemented!() }"
        fs_attrs_extra = ["#[verifier::external_body]"]
        _bump(rules, "R7 external (body not verified): %s" % fs.qual)
    else:
        ed.ins_before(bo, spec_text)
        outer_ret = _ret_type_text(it)
        _body_rules(unit, it, bo, bc + 1, ed, rules, counts, outer_ret, 0)
        for (old, k_, new) in fs.replaces:
            p = pat_of(old)
            s = find_seq(toks, bo, bc + 1, p, k_)
            if s is None:
                raise ExtractError("%s: replace anchor `%s` (#%d) not found" % (fs.qual, old, k_))
            ed.replace(s, s + len(p), new)
            _bump(rules, "declared rewrite in %s: `%s` => `%s`" % (fs.qual, old, new))
        # ---- R10 (unlisted helper methods are inlined at their calls)
        _inline_helpers(unit, it, bo + 1, bc, ed, rules, counts, outer_ret, 0)
        # ---- fixed rules (declared rewrites take precedence: the rules skip what those already replaced)
        apply_fixed_rules(it, bo, bc + 1, ed, counts)
        # ---- loops
        lps = loops_in(it, bo + 1, bc)
        for n, text in fs.loops.items():
            if n < 1 or n > len(lps):
                raise ExtractError("%s: loop %d not found (function has %d loops)" % (fs.qual, n, len(lps)))
            ed.ins_before(lps[n - 1][1], "\n" + _indent(text, 12) + "\n        ")
        # ---- statement anchors
        for (where, anchor, k_, text) in fs.anchors:
            p = pat_of(anchor)
            s = find_seq(toks, bo + 1, bc, p, k_)
            if s is None:
                if where.endswith("_opt"):
                    continue
                raise ExtractError("%s: anchor `%s` (#%d) not found" % (fs.qual, anchor, k_))
            where = where.replace("_opt", "")
            if where == "before":
                ed.ins_before(s, "\n" + text + "\n")
            elif where == "after":
                ed.ins_after(s + len(p) - 1, "\n" + text + "\n")
            elif where == "before_stmt":
                ed.ins_before(_stmt_start(toks, s, bo, fs.qual, anchor), "\n" + text + "\n")
            else:
                ed.ins_after(_stmt_end(toks, s + len(p) - 1, bc, fs.qual, anchor), "\n" + text + "\n")
        if fs.enter.strip():
            ed.ins_after(bo, "\n" + fs.enter)
        if fs.exit.strip():
            # tail expression = tokens after the last top-level `;` (or after a block statement) of the body
            opener = {}
            stack = []
            for q in range(bo, bc + 1):
                if toks[q].text in OPEN:
                    stack.append(q)
                elif toks[q].text in CLOSE:
                    opener[q] = stack.pop()
            pos = bc - 1
            tail = bc
            if toks[pos].text != ";":
                while pos > bo:
                    x = toks[pos].text
                    if x in CLOSE:
                        if x == "}" and pos != bc - 1 and toks[pos + 1].text != "else" and toks[pos + 1].text not in (".", "?"):
                            break           # end of a previous block-like statement
                        pos = opener[pos] - 1
                        continue
                    if x == ";":
                        break
                    pos -= 1
                tail = pos + 1
            if (toks[bc - 1].text in (";", "}") and tail == bc) or toks[tail].text in ("while", "for", "loop"):
                ed.ins_before(bc, "\n" + fs.exit)
            else:
                ed.ins_before(tail, "\n" + fs.exit)
        # ---- closures
        for (anchor, k_, params, ret, ens) in fs.closures:
            p = pat_of(anchor)
            s = find_seq(toks, bo + 1, bc, p, k_)
            if s is None:
                raise ExtractError("%s: closure anchor `%s` (#%d) not found" % (fs.qual, anchor, k_))
            _annotate_closure(it, s, len(p), params, ret, ens, ed, fs.qual)
            _bump(rules, "closure contract injected in %s" % fs.qual)
        out_text = render(it, it.a, bc + 1, ed)
    for kname, n in counts.items():
        _bump(rules, kname, n)
    vis = it.vis + " " if it.vis else ""
    all_attrs = list(fs.attrs) + (["#[verifier::external_body]"] if fs.external else [])
    if all_attrs:
        vis = "\n".join(all_attrs) + "\n    " + vis
    parent = getattr(it, "parent", None)
    if parent is not None:
        header = parent.text(parent.a, parent.body[0])
        if getattr(fs, "inherent", False) and parent.impl_trait is not None:
            header = "impl %s" % parent.impl_target
            _bump(rules, "R11 trait-impl method emitted as inherent method (%s)" % fs.qual)
        out.add(header + " {\n")
        out.add("    " + vis + out_text + "\n", origin)
        out.add("}\n\n")
    else:
        out.add(vis + out_text + "\n\n", origin)
    # names this function calls (identifier directly followed by `(`): the in-unit call graph for "whose contract does a proof rely on"
    calls = sorted({toks[q].text for q in range(bo, bc) if toks[q].kind == "ident" and toks[q + 1].text == "("}) if not fs.external else []
    return {"qual": fs.qual, "file": it.path, "line": it.line, "end_line": it.end_line,
            "obligations": fs.obligations, "external": fs.external, "has_contract": bool(fs.spec.strip()),
            "calls": calls, "contract_from": getattr(fs, "contract_from", None)}


def _stmt_start(toks, i, lo, qual, anchor):
    """first token of the statement that contains token i (walk left to the nearest `;` `{` `}` at depth 0)"""
    depth = 0
    j = i - 1
    while j > lo:
        x = toks[j].text
        if x in (")", "]"):
            depth += 1
        elif x in ("(", "["):
            if depth == 0:
                raise ExtractError("%s: anchor `%s` is inside parentheses, not a statement" % (qual, anchor))
            depth -= 1
        elif depth == 0 and x in (";", "{", "}"):
            return j + 1
        j -= 1
    return lo + 1


def _stmt_end(toks, i, hi, qual, anchor):
    """the `;` that ends the statement containing token i (an anchor that ends in an opening bracket: skip to its partner first)"""
    if toks[i].text in OPEN:
        i = match_close(toks, i)
    j = i + 1
    while j < hi:
        x = toks[j].text
        if x in OPEN:
            j = match_close(toks, j)
        elif x == ";":
            return j
        elif x in CLOSE:
            raise ExtractError("%s: statement containing `%s` has no terminating `;`" % (qual, anchor))
        j += 1
    raise ExtractError("%s: statement containing `%s` has no terminating `;`" % (qual, anchor))


def _indent(text, n):
    pad = " " * n
    return "\n".join(pad + l.strip() if l.strip() else "" for l in text.split("\n"))


def scan_assumptions(text):
    toks = code_tokens(lex(text))
    res = {"external_body": [], "assume_specification": [], "assume": 0, "admit": 0, "axiom": [], "external_type_specification": []}
    for i, t in enumerate(toks):
        if t.kind != "ident":
            continue
        if t.text == "external_body":
            # name of following item
            j = i
            while j < len(toks) and toks[j].text not in ("fn", "struct", "enum"):
                j += 1
            nm = toks[j + 1].text if j + 1 < len(toks) else "?"
            # qualify with impl if nested? keep simple
            res["external_body"].append("%s %s" % (toks[j].text, nm))
        elif t.text == "assume_specification":
            j = i
            while toks[j].text != "[":
                j += 1
            k = match_close(toks, j)
            res["assume_specification"].append("".join(x.text for x in toks[j + 1:k]))
        elif t.text == "assume" and toks[i + 1].text == "(":
            res["assume"] += 1
        elif t.text == "admit" and toks[i + 1].text == "(":
            res["admit"] += 1
        elif t.text == "axiom" and toks[i + 1].text == "fn":
            res["axiom"].append(toks[i + 2].text)
        elif t.text == "external_type_specification":
            j = i
            while toks[j].text != "struct":
                j += 1
            res["external_type_specification"].append(toks[j + 1].text)
    return res
