"""Run Verus on a generated unit and classify the outcome."""
import json
import os
import subprocess
import time
from .gen import generate, ExtractError
from .vspec import SpecError
from .lexer import LexError

VERIF = os.path.dirname(os.path.dirname(os.path.abspath(__file__)))
BUILD = os.path.join(VERIF, "build")

# Verus messages that state a *semantic* reason: the obligation is false or could not be established
SEMANTIC = (
    "postcondition not satisfied",
    "precondition not satisfied",
    "assertion failed",
    "invariant not satisfied",
    "possible arithmetic underflow/overflow",
    "possible division by zero",
    "possible bit shift underflow/overflow",
    "decreases not satisfied",
    "recommendation not met",
    "loop invariant not satisfied",
    "unreachable",  # `unreached()` / unreachable!() reached
    "index out of bounds",
    "could not prove termination",
    "cannot show invariant holds",
    "failed precondition",
    "possible overflow",
    "precondition not met",
)
# resource / tool limits -> undecided
LIMITS = ("rlimit", "resource limit", "timed out", "timeout", "out of memory", "solver")


class UnitResult:
    def __init__(self, unit):
        self.unit = unit
        self.status = "ok"          # ok | violation | undecided
        self.reason = ""
        self.failures = []          # dicts: message, gen_line, fn, file, line, obligations, rendered, semantic
        self.verified = 0
        self.errors = 0
        self.smt_ms = 0
        self.total_ms = 0
        self.wall_s = 0.0
        self.gen = None
        self.gen_path = None
        self.cmd = ""
        self.canary_ok = None
        self.raw = ""


def _verus(path, seed=None, extra=None, timeout=900):
    cmd = ["verus", path, "--output-json", "--time", "--multiple-errors", "50", "--num-threads", "8"]
    if seed is not None:
        cmd += ["--smt-option", "smt.random_seed=%d" % seed, "--smt-option", "sat.random_seed=%d" % seed]
    if extra:
        cmd += extra
    cmd += ["--", "--error-format=json"]
    t0 = time.time()
    try:
        p = subprocess.run(cmd, capture_output=True, text=True, timeout=timeout, cwd=os.path.dirname(path))
        return cmd, p.returncode, p.stdout, p.stderr, time.time() - t0
    except subprocess.TimeoutExpired as e:
        return cmd, -9, "", "verus timed out after %ds" % timeout, time.time() - t0


def _parse(stdout, stderr):
    info = {}
    try:
        info = json.loads(stdout)
    except Exception:
        pass
    diags = []
    for line in stderr.splitlines():
        line = line.strip()
        if not line.startswith("{"):
            continue
        try:
            d = json.loads(line)
        except Exception:
            continue
        if d.get("$message_type") == "diagnostic" and d.get("level") == "error":
            diags.append(d)
    return info, diags


def run_unit(spec_path, root, seed=None, canary=True, std_contracts=None, tag=""):
    name = os.path.splitext(os.path.basename(spec_path))[0]
    res = UnitResult(name)
    os.makedirs(BUILD, exist_ok=True)
    t0 = time.time()
    try:
        g = generate(spec_path, root, std_contracts)
    except (ExtractError, SpecError, LexError) as e:
        res.status, res.reason = "undecided", "extraction: %s" % e
        res.wall_s = time.time() - t0
        return res
    res.gen = g
    if g.scan["assume"] or g.scan["admit"]:
        res.status, res.reason = "undecided", "proof text contains assume()/admit() (%d/%d): refused" % (g.scan["assume"], g.scan["admit"])
        return res
    # one directory per process: concurrent checks (other properties, other trees) never overwrite each other's generated files
    rundir = os.path.join(BUILD, "run_%d" % os.getpid())
    os.makedirs(rundir, exist_ok=True)
    path = os.path.join(rundir, "%s%s.rs" % (name, tag))
    open(path, "w").write(g.text)
    res.gen_path = path
    canary_future = None
    if canary:
        import concurrent.futures as _cf
        cpath = os.path.join(rundir, "%s%s_canary.rs" % (name, tag))
        ctext = g.text.replace("\n} // verus!", "\nproof fn vx_canary() ensures false {}\n} // verus!")
        open(cpath, "w").write(ctext)
        _pool = _cf.ThreadPoolExecutor(max_workers=1)
        canary_future = _pool.submit(_verus, cpath, seed)
    cmd, rc, so, se, wall = _verus(path, seed)
    res.cmd = " ".join(cmd)
    res.raw = se
    info, diags = _parse(so, se)
    vr = info.get("verification-results", {})
    res.verified = vr.get("verified", 0)
    res.errors = vr.get("errors", 0)
    tm = info.get("times-ms", {})
    res.smt_ms = tm.get("smt", {}).get("total", 0)
    res.total_ms = tm.get("total", 0)
    if rc != 0 and not diags and not vr:
        res.status, res.reason = "undecided", "verus failed without diagnostics (rc=%s): %s" % (rc, se[-400:])
        res.wall_s = time.time() - t0
        return res
    for d in diags:
        msg = d.get("message", "")
        if msg.startswith("aborting due to"):
            continue
        prim = [s for s in d.get("spans", []) if s.get("is_primary")] or d.get("spans", [])
        # the failing obligation is attributed to the function that contains the *body* span if any
        lines = [s["line_start"] for s in d.get("spans", [])]
        gl = prim[0]["line_start"] if prim else 0
        origin = None
        for l in [gl] + lines:
            if l in g.map:
                origin = g.map[l]
                break
        low = msg.lower()
        semantic = any(low.startswith(s) or s in low for s in SEMANTIC) and not any(x in low for x in LIMITS)
        f = {"message": msg, "gen_line": gl, "rendered": d.get("rendered", ""), "semantic": semantic,
             "fn": origin[2] if origin else None, "file": origin[0] if origin else None,
             "line": origin[1] if origin else None, "obligations": list(origin[3]) if origin else [],
             "kind": origin[4] if origin else "unknown"}
        # caller-side precondition failures: attribute to the function whose body contains the call (primary span may
        # point into the callee's requires clause)
        if "precondition" in low:
            # Verus marks the CALL SITE as primary and the callee's failed `requires` clause as secondary
            f["callee_clause_line"] = next((s["line_start"] for s in d.get("spans", []) if not s.get("is_primary")), None)
            for s in prim:
                if s["line_start"] in g.map and g.map[s["line_start"]][4] != "external":
                    o = g.map[s["line_start"]]
                    f.update(fn=o[2], file=o[0], line=o[1], obligations=list(o[3]), kind=o[4])
                    break
        res.failures.append(f)
    if res.failures:
        # a resource-limit message on a function that ALSO has a semantic failure is the solver giving up while looking
        # for further errors: the semantic failure stands.  A function with only limit / unsupported errors is undecided.
        sem_fns = {f["fn"] for f in res.failures if f["semantic"]}
        bad = [f for f in res.failures if not f["semantic"]
               and not (any(x in f["message"].lower() for x in LIMITS) and f["fn"] in sem_fns and f["fn"] is not None)]
        if bad:
            res.status, res.reason = "undecided", "non-semantic verifier error: %s (generated line %d)" % (bad[0]["message"][:200], bad[0]["gen_line"])
        else:
            res.failures = [f for f in res.failures if f["semantic"]]
            res.status = "violation"
    elif rc != 0 or not vr.get("success", False):
        res.status, res.reason = "undecided", "verus rc=%s without classified errors" % rc
    if res.status == "ok" and res.verified == 0:
        res.status, res.reason = "undecided", "zero obligations generated (vacuous run)"
    # ---- vacuity canary: a false lemma must fail, and must be the only failure
    if canary and res.status == "ok":
        _, rc2, so2, se2, _ = canary_future.result()
        info2, diags2 = _parse(so2, se2)
        errs = [d for d in diags2 if not d.get("message", "").startswith("aborting")]
        # the canary lemma `ensures false` must FAIL; other diagnostics of that second run (e.g. a resource limit in some
        # function that the main run verified) say nothing about vacuity and are ignored
        def _is_canary(d):
            return "postcondition" in d.get("message", "") and any("vx_canary" in (t.get("text") or "") for sp in d.get("spans", []) for t in sp.get("text", []))
        res.canary_ok = any(_is_canary(d) for d in errs)
        if not res.canary_ok:
            res.status, res.reason = "undecided", "vacuity canary did not fail as expected (contradictory axioms or preconditions?)"
    res.wall_s = time.time() - t0
    return res
