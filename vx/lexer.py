"""Minimal Rust lexer: enough to cut items out of source files by brace matching.

Tokens are (kind, text, start, end) with byte offsets into the source text.
Kinds: ident, lifetime, num, str, char, punct, comment, doc.
Whitespace is not emitted.  Multi-character operators are emitted one character at a time
except `->`, `=>`, `::`, `..`, `..=`, `&&`, `||`, `==`, `!=`, `<=`, `>=`, `+=`, `-=`, `<<`, `>>`
which the extractor wants to see as units (`<<`/`>>` are split again when matching generics).
"""
import re
from collections import namedtuple

Tok = namedtuple("Tok", "kind text start end")

_IDENT = re.compile(r"[A-Za-z_][A-Za-z0-9_]*")
_NUM = re.compile(r"[0-9][0-9A-Za-z_]*(\.[0-9][0-9A-Za-z_]*)?")
_PUNCT2 = ("->", "=>", "::", "..=", "..", "&&", "||", "==", "!=", "<=", ">=", "+=", "-=", "*=", "/=",
           "^=", "|=", "&=", "<<=", ">>=")


class LexError(Exception):
    pass


def lex(src):
    toks = []
    i, n = 0, len(src)
    while i < n:
        c = src[i]
        if c.isspace():
            i += 1
            continue
        if src.startswith("//", i):
            j = src.find("\n", i)
            if j < 0:
                j = n
            kind = "doc" if (src.startswith("///", i) and not src.startswith("////", i)) or src.startswith("//!", i) else "comment"
            toks.append(Tok(kind, src[i:j], i, j))
            i = j
            continue
        if src.startswith("/*", i):
            depth, j = 1, i + 2
            while j < n and depth:
                if src.startswith("/*", j):
                    depth += 1
                    j += 2
                elif src.startswith("*/", j):
                    depth -= 1
                    j += 2
                else:
                    j += 1
            toks.append(Tok("comment", src[i:j], i, j))
            i = j
            continue
        # raw strings / byte strings
        m = re.match(r"(b|c)?r(#*)\"", src[i:i + 40])
        if m:
            hashes = m.group(2)
            close = '"' + hashes
            j = src.find(close, i + m.end())
            if j < 0:
                raise LexError("unterminated raw string at %d" % i)
            j += len(close)
            toks.append(Tok("str", src[i:j], i, j))
            i = j
            continue
        if c == '"' or (c in "bc" and i + 1 < n and src[i + 1] == '"'):
            j = i + (1 if c == '"' else 2)
            while j < n and src[j] != '"':
                j += 2 if src[j] == "\\" else 1
            j += 1
            toks.append(Tok("str", src[i:j], i, j))
            i = j
            continue
        if c == "'" or (c == "b" and i + 1 < n and src[i + 1] == "'"):
            k = i + (0 if c == "'" else 1)
            # char literal or lifetime
            m = re.match(r"'(\\.[^']*|[^\\'])'", src[k:k + 16])
            if m:
                j = k + m.end()
                toks.append(Tok("char", src[i:j], i, j))
                i = j
                continue
            m = re.match(r"'[A-Za-z_][A-Za-z0-9_]*", src[k:])
            if m:
                j = k + m.end()
                toks.append(Tok("lifetime", src[i:j], i, j))
                i = j
                continue
            raise LexError("bad quote at %d" % i)
        m = _IDENT.match(src, i)
        if m:
            # raw identifiers r#x
            toks.append(Tok("ident", m.group(0), i, m.end()))
            i = m.end()
            continue
        m = _NUM.match(src, i)
        if m:
            # do not swallow `0..8` as a float
            text = m.group(0)
            if "." in text and src.startswith("..", i + text.index(".")):
                text = text[:text.index(".")]
            toks.append(Tok("num", text, i, i + len(text)))
            i += len(text)
            continue
        for p in _PUNCT2:
            if src.startswith(p, i):
                toks.append(Tok("punct", p, i, i + len(p)))
                i += len(p)
                break
        else:
            toks.append(Tok("punct", c, i, i + 1))
            i += 1
    return toks


OPEN = {"(": ")", "[": "]", "{": "}"}
CLOSE = {v: k for k, v in OPEN.items()}


def code_tokens(toks):
    """tokens without comments (doc comments included in the drop)."""
    return [t for t in toks if t.kind not in ("comment", "doc")]


def match_close(toks, i):
    """toks[i] is an opening bracket; return index of its matching close."""
    assert toks[i].text in OPEN, toks[i]
    depth = 0
    for j in range(i, len(toks)):
        t = toks[j]
        if t.kind == "punct":
            if t.text in OPEN:
                depth += 1
            elif t.text in CLOSE:
                depth -= 1
                if depth == 0:
                    return j
    raise LexError("unbalanced bracket at offset %d" % toks[i].start)


def norm(text):
    """whitespace/comment-insensitive normal form of a code fragment."""
    return " ".join(t.text for t in code_tokens(lex(text)))
