"""Parser for .vspec files (the only hand-written proof text).

Grammar (line oriented; `#` starts a comment outside blocks; a block is  <<< ... >>>  and may span lines):

  unit NAME
  uses <<< rust `use` lines placed before verus!{} >>>
  tail <<< plain rust placed after the verus!{} block (declarations of opaque external types) >>>
  prelude <<< verus text: spec fns, lemmas, std contracts local to this unit >>>
  include FILE                      (another prelude text file, relative to /verif/spec)
  opaque TYPE-PREFIX ...            (R6: struct field types starting with one of these become `Opaque`)
  dropfield STRUCT FIELD ...        (R6b: field removed from struct AND from struct literals of that type)
  closure_all `|x| ..` params `|x: T|` ret `(o: U)` <<< ensures >>>   (contract on every occurrence of that closure literal)
  rewrite `old tokens` => `new text`   (unit-wide token rewrite, every occurrence, reported; pattern tokens __1, __2 match a
                                        balanced token run and are substituted into the new text)
  opaque_call `Path::Ctor` => `stub()` (unit-wide: a call of that constructor, WITH its arguments, becomes the stub expression; reported)
  assume NOTE                       (free-text assumption for the evidence)

  contracts_of UNIT.vspec           (every method contract of another unit as `external` callee contracts)
  import FILE.vpart                 (splice in the directives of another file: shared type lists)
  type    FILE NAME                 (extract a `type X = Y;` alias)
  struct  FILE NAME                 (extract a struct definition)
  enum    FILE NAME
  opaque_type NAME                  (emit `#[verifier::external_body] pub struct NAME;`)
  fn      FILE [IMPL::]NAME         (extract a function with its body; IMPL is the impl target type)
  external FILE [IMPL::]NAME        (R7: extract the signature only, body becomes unimplemented!(), external_body)
    with sub-directives (indented or not) that apply to the last fn/external:
      obligation ID [ID...]
      ret NAME                      (name the result: `-> T` becomes `-> (NAME: T)`)
      spec <<< requires/ensures/decreases text >>>
      loop N <<< invariant/decreases text >>>       (N-th loop of the body, 1-based, textual order)
      before `stmt tokens` [#K] <<< text >>>
      after  `stmt tokens` [@K] <<< text >>>
      before_stmt / after_stmt `tokens` [@K] <<< text >>>   (tokens matched anywhere inside a statement; the text
                                                            goes before the statement's first token / after its `;`)
      before_opt / after_opt `tokens` <<< text >>>          (proof hint that is simply dropped when the anchor is absent)
      enter <<< text inserted right after the body's opening brace >>>
      exit <<< text inserted before the body's tail expression (or before the closing brace) >>>
      attr #[verifier::...]         (attribute put on the emitted function, e.g. rlimit)
      closure `|x| body tokens` [#K] params `|x: T|` ret `(o: U)` <<< ensures text >>>
      replace `old tokens` [#K] => `new text`       (fn-local rewrite, reported)
      sig `old tokens` => `new text`                (rewrite inside the signature only, reported)
      inherent                                      (R11: method of `impl Trait for T` emitted inside `impl T { }`, reported)
"""
import re


class SpecError(Exception):
    pass


class FnSpec:
    def __init__(self, file, qual, external=False):
        self.file = file
        self.qual = qual            # "Impl::name" or "name"
        self.external = external
        self.obligations = []
        self.ret = None
        self.spec = ""
        self.loops = {}
        self.anchors = []           # (where, anchor, k, text)
        self.enter = ""
        self.exit = ""
        self.attrs = []
        self.closures = []          # (anchor, k, params, ret, ensures)
        self.replaces = []          # (old, k, new)
        self.sigrewrites = []
        self.line = 0

    @property
    def impl(self):
        return self.qual.rsplit("::", 1)[0] if "::" in self.qual else None

    @property
    def name(self):
        return self.qual.split("::")[-1]


class Unit:
    def __init__(self):
        self.name = None
        self.uses = ""
        self.tail = ""
        self.prelude = []           # list of (label, text)
        self.opaque = []
        self.dropfields = []
        self.rewrites = []
        self.closures_all = []
        self.opaque_calls = []
        self.assumes = []
        self.items = []             # ("struct"|"enum"|"opaque_type"|"fn"|"trait_stub", ...)
        self.path = None


_TOK = re.compile(r"""
    <<<(?P<block>.*?)>>>      |
    `(?P<tick>[^`]*)`         |
    (?P<word>[^\s`<]+|<(?!<<))
""", re.S | re.X)


def _strip_comments(text):
    # remove `#` comments outside blocks/backticks, line by line but block-aware
    out, i, n = [], 0, len(text)
    while i < n:
        if text.startswith("<<<", i):
            j = text.find(">>>", i)
            if j < 0:
                raise SpecError("unterminated <<< block")
            out.append(text[i:j + 3])
            i = j + 3
        elif text[i] == "`":
            j = text.find("`", i + 1)
            if j < 0:
                raise SpecError("unterminated backtick")
            out.append(text[i:j + 1])
            i = j + 1
        elif text[i] == "#" and (i == 0 or text[i - 1] in " \t\n") and not text.startswith("#[", i):
            j = text.find("\n", i)
            i = n if j < 0 else j
        else:
            out.append(text[i])
            i += 1
    return "".join(out)


def _statements(text):
    """split into statements: each begins with a keyword at line start."""
    text = _strip_comments(text)
    # tokenise whole text, remembering line starts
    toks = []
    for m in _TOK.finditer(text):
        line = text.count("\n", 0, m.start()) + 1
        at_line_start = text[:m.start()].rsplit("\n", 1)[-1].strip() == ""
        if m.group("block") is not None:
            toks.append(("block", m.group("block"), line, at_line_start))
        elif m.group("tick") is not None:
            toks.append(("tick", m.group("tick"), line, at_line_start))
        else:
            toks.append(("word", m.group("word"), line, at_line_start))
    stmts, cur = [], None
    for t in toks:
        if t[0] == "word" and t[3]:
            cur = [t]
            stmts.append(cur)
        else:
            if cur is None:
                raise SpecError("text before first directive at line %d" % t[2])
            cur.append(t)
    return stmts


def parse(path, include_dir=None, part=False):
    import os
    u = Unit()
    u.path = path
    include_dir = include_dir or os.path.dirname(path)
    cur = None
    for st in _statements(open(path).read()):
        kw, line = st[0][1], st[0][2]
        args = st[1:]

        def word(i):
            if i >= len(args) or args[i][0] != "word":
                raise SpecError("%s:%d: expected word #%d after %s" % (path, line, i, kw))
            return args[i][1]

        def block(i=-1):
            if not args or args[i][0] != "block":
                raise SpecError("%s:%d: expected <<< block >>> for %s" % (path, line, kw))
            return args[i][1].strip("\n")

        def tick(i):
            if i >= len(args) or args[i][0] != "tick":
                raise SpecError("%s:%d: expected `tokens` #%d after %s" % (path, line, i, kw))
            return args[i][1]

        def ordinal(i):
            if i < len(args) and args[i][0] == "word" and args[i][1].startswith("#") is False and re.fullmatch(r"@\d+", args[i][1]):
                return int(args[i][1][1:]), i + 1
            return 1, i

        if kw == "unit":
            u.name = word(0)
        elif kw == "uses":
            u.uses += block() + "\n"
        elif kw == "tail":
            u.tail += block() + "\n"
        elif kw == "prelude":
            u.prelude.append((os.path.basename(path), block()))
        elif kw == "include":
            p = os.path.join(include_dir, word(0))
            u.prelude.append((word(0), open(p).read()))
        elif kw == "opaque":
            u.opaque += [a[1] for a in args]
        elif kw == "dropfield":
            u.dropfields.append((word(0), word(1)))
        elif kw == "opaque_call":
            # opaque_call `Path::Ctor` => `stub()` : every call `Path::Ctor( ... )` (arguments dropped) becomes the stub expression
            u.opaque_calls.append((tick(0), tick(2)))
        elif kw == "closure_all":
            # closure_all `anchor` params `..` ret `..` <<< ensures >>> : contract on EVERY occurrence of the closure literal in any extracted
            # body (also inside helpers inlined by R10)
            rest = args[1:]
            d = {}
            j = 0
            while j < len(rest) and rest[j][0] == "word":
                d[rest[j][1]] = rest[j + 1][1]
                j += 2
            u.closures_all.append((tick(0), d.get("params"), d.get("ret"), block()))
        elif kw == "rewrite":
            if word(1) != "=>":
                raise SpecError("%s:%d: rewrite `a` => `b`" % (path, line))
            u.rewrites.append((tick(0), tick(2)))
        elif kw == "assume":
            u.assumes.append(" ".join(a[1] for a in args))
        elif kw in ("struct", "enum", "type"):
            u.items.append((kw, word(0), word(1)))
            cur = None
        elif kw == "contracts_of":
            # the fn contracts proved in another unit, re-used here as callee contracts (external: bodies not re-verified)
            sub = parse(os.path.join(include_dir, word(0)), include_dir, part=True)
            for it in sub.items:
                if it[0] == "fn" and "::" in it[2].qual and not it[2].external:
                    src_fs = it[2]
                    fs = FnSpec(src_fs.file, src_fs.qual, external=True)
                    fs.ret, fs.spec, fs.sigrewrites = src_fs.ret, src_fs.spec, list(src_fs.sigrewrites)
                    fs.contract_from = word(0)
                    u.items.append(("fn", fs.file, fs))
            cur = None
        elif kw == "import":
            sub = parse(os.path.join(include_dir, word(0)), include_dir, part=True)
            u.items += sub.items
            u.opaque += sub.opaque
            u.rewrites += sub.rewrites
            u.closures_all += sub.closures_all
            u.opaque_calls += sub.opaque_calls
            u.prelude += sub.prelude
            u.uses += sub.uses
            u.tail += sub.tail
            u.assumes += sub.assumes
            cur = None
        elif kw == "opaque_type":
            u.items.append((kw, None, word(0)))
            cur = None
        elif kw == "trait_stub":
            u.items.append((kw, None, word(0)))
            cur = None
        elif kw in ("fn", "external"):
            cur = FnSpec(word(0), args[1][1], external=(kw == "external"))
            cur.line = line
            u.items.append(("fn", cur.file, cur))
        elif cur is None:
            raise SpecError("%s:%d: directive %s outside fn" % (path, line, kw))
        elif kw == "obligation":
            cur.obligations += [a[1] for a in args]
        elif kw == "ret":
            cur.ret = word(0)
        elif kw == "spec":
            cur.spec += block() + "\n"
        elif kw == "loop":
            cur.loops[int(word(0))] = block()
        elif kw in ("before", "after", "before_stmt", "after_stmt", "before_opt", "after_opt"):
            k, _ = ordinal(1)
            cur.anchors.append((kw, tick(0), k, block()))
        elif kw == "enter":
            cur.enter += block() + "\n"
        elif kw == "exit":
            cur.exit += block() + "\n"
        elif kw == "attr":
            cur.attrs.append(" ".join(a[1] for a in args))
        elif kw == "closure":
            k, i = ordinal(1)
            # closure `anchor` [@K] params `..` ret `..` <<< ensures >>>
            rest = args[i:]
            d = {}
            j = 0
            while j < len(rest) and rest[j][0] == "word":
                d[rest[j][1]] = rest[j + 1][1]
                j += 2
            cur.closures.append((tick(0), k, d.get("params"), d.get("ret"), block()))
        elif kw == "replace":
            k, i = ordinal(1)
            if args[i][1] != "=>":
                raise SpecError("%s:%d: replace `a` [@K] => `b`" % (path, line))
            cur.replaces.append((tick(0), k, args[i + 1][1]))
        elif kw == "sig":
            cur.sigrewrites.append((tick(0), tick(2)))
        elif kw == "inherent":
            # R11: a trait-impl method is emitted as an inherent method of the implementing type (Verus rejects `requires` on trait impls;
            # used where the trait itself - #[async_trait] - is outside the unit).  Reported.
            cur.inherent = True
        else:
            raise SpecError("%s:%d: unknown directive %s" % (path, line, kw))
    if not u.name and not part:
        raise SpecError("%s: no unit name" % path)
    return u
