#!/usr/bin/env python3
"""Runner for the contract-based checks.

  python3 vp.py setup
  python3 vp.py check <ID> [--tier quick|thorough] [--repo DIR]
  python3 vp.py replay <file.json>
  python3 vp.py manifest            (re-generate MANIFEST.json from props.py)
  python3 vp.py selftest [--only NAME]

exit 0: every obligation of the property discharged on /repo's working tree (known findings are printed, not counted)
exit 1: `VIOLATION property=<id> replay=<path>` -- an obligation failed with a semantic reason
exit 2: undecided (extraction failure, lost anchor, unsupported construct, solver limit, tool crash) -- never an alarm
"""
import argparse
import hashlib
import json
import os
import subprocess
import sys
import time

VERIF = os.path.dirname(os.path.abspath(__file__))
sys.path.insert(0, VERIF)
import props as P                    # noqa: E402
from vx import run as VR             # noqa: E402

BUILD = os.path.join(VERIF, "build")
EVID = os.path.join(VERIF, "evidence")
KNOWN = os.path.join(VERIF, "KNOWN_FINDINGS.txt")


def sh(cmd, **kw):
    return subprocess.run(cmd, shell=isinstance(cmd, str), capture_output=True, text=True, **kw)


# ------------------------------------------------------------------------------------------------ known findings

def load_known():
    """lines:  known: property=C19 obligation=O-C19-gate fn=SendTransaction::has_pdu_to_send <free text>
               fixed: property=C09 <commit> <what failed>      (suppresses nothing)"""
    out = []
    if os.path.exists(KNOWN):
        for line in open(KNOWN):
            line = line.strip()
            if not line.startswith("known:"):
                continue
            d = {"text": line}
            for tok in line.split():
                if "=" in tok:
                    k, v = tok.split("=", 1)
                    d[k] = v
            out.append(d)
    return out


def is_known(known, prop, failure):
    for k in known:
        if k.get("property") != prop:
            continue
        if k.get("fn") and k["fn"] != failure.get("fn"):
            continue
        if k.get("obligation") and k["obligation"] not in failure.get("obligations", []):
            continue
        if k.get("harness") and k["harness"] != failure.get("harness"):
            continue
        return k
    return None


def relied_upon(gen, prefixes):
    """qualified names of the unit's functions whose contracts the property's proofs rely on: the functions that carry an obligation of
    the property, plus - transitively, by name - everything they call inside the unit (a caller is checked against the callee's contract,
    so a callee whose own contract fails invalidates the caller's proof)"""
    by_name = {}
    for f in gen.fns:
        by_name.setdefault(f["qual"].split("::")[-1], []).append(f)
    rel = {f["qual"] for f in gen.fns if [o for o in f["obligations"] if any(o.startswith(p) for p in prefixes)]}
    work = list(rel)
    fn = {f["qual"]: f for f in gen.fns}
    while work:
        q = work.pop()
        for c in fn[q].get("calls", []):
            for g in by_name.get(c, []):
                if g["qual"] not in rel:
                    rel.add(g["qual"])
                    work.append(g["qual"])
    return rel


# ------------------------------------------------------------------------------------------------ check

def check(prop, tier, repo, seed):
    cfg = P.PROPS[prop]
    t0 = time.time()
    os.makedirs(BUILD, exist_ok=True)
    os.makedirs(EVID, exist_ok=True)
    known = load_known()
    violations, undecided, notes, known_hits = [], [], [], []
    units = []
    functions, trusted, rules, samples, assumptions = [], set(), {}, [], set()
    obligations = discharged = 0
    smt_ms = 0
    checker_cmds = []

    # ---------------- Verus units
    import concurrent.futures as cf
    with cf.ThreadPoolExecutor(max_workers=4) as pool:
        futs = [(unit, prefixes, pool.submit(VR.run_unit, os.path.join(VERIF, "spec", unit + ".vspec"), repo))
                for (unit, prefixes) in cfg.get("verus", [])]
        unit_results = [(unit, prefixes, f.result()) for (unit, prefixes, f) in futs]
        # units whose proved contracts are imported (contracts_of) by the units above and are not run for this property anyway:
        # a contract relied upon must hold in its home unit
        have = {u for (u, _, _) in unit_results}
        deps = {}
        for (unit, prefixes, res) in unit_results:
            if res.gen:
                rel = relied_upon(res.gen, prefixes)
                for f in res.gen.fns:
                    if f.get("contract_from") and f["qual"] in rel:
                        deps.setdefault(f["contract_from"].replace(".vspec", ""), set()).add(f["qual"])
        dfuts = [(d, quals, pool.submit(VR.run_unit, os.path.join(VERIF, "spec", d + ".vspec"), repo)) for (d, quals) in sorted(deps.items()) if d not in have]
        dep_results = [(d, quals, f.result()) for (d, quals, f) in dfuts]
    for (d, quals, res) in dep_results:
        checker_cmds.append(res.cmd)
        smt_ms += res.smt_ms
        if res.status == "undecided":
            undecided.append("%s (unit whose contracts are imported): %s" % (d, res.reason))
            continue
        for f in res.failures:
            if f["fn"] in quals:
                f = dict(f, unit=d, mine=(f["obligations"] or ["contract of " + f["fn"]]), gen_path=res.gen_path)
                k = is_known(known, prop, f)
                if k:
                    known_hits.append((k, f))
                else:
                    violations.append(f)
        notes.append("imported contracts of unit %s re-checked in their home unit (%d functions relied upon)" % (d, len(quals)))
    for (unit, prefixes, res) in unit_results:
        units.append(res)
        checker_cmds.append(res.cmd)
        smt_ms += res.smt_ms
        if res.gen:
            rel0 = relied_upon(res.gen, prefixes)
            for f in res.gen.fns:
                mine = [o for o in f["obligations"] if any(o.startswith(p) for p in prefixes)]
                functions.append({"fn": f["qual"], "at": "%s:%d" % (f["file"], f["line"]), "obligations": f["obligations"],
                                  "verified_body": not f["external"], "counts_for_property": bool(mine) or f["qual"] in rel0})
            for k, v in res.gen.rules.items():
                rules["%s: %s" % (unit, k)] = v
            sc = res.gen.scan
            for x in sc.get("used_assume_specification", sc["assume_specification"]):
                trusted.add("assumed std contract: %s" % x)
            for x in sc["external_body"]:
                trusted.add("external_body (unverified, contract assumed): %s" % x)
            for x in sc["axiom"]:
                trusted.add("axiom: %s" % x)
            for x in sc["external_type_specification"]:
                trusted.add("external type: %s" % x)
            for a in res.gen.unit.assumes:
                assumptions.add(a)
        if res.status == "undecided":
            undecided.append("%s: %s" % (unit, res.reason))
            continue
        # function-level verification conditions; failures of functions that carry no obligation of THIS property belong to
        # another property's check and are left out of both counts (they are listed under notes)
        rel = relied_upon(res.gen, prefixes) if res.gen else set()
        foreign = len({f["fn"] for f in res.failures if f["fn"] and f["kind"] != "prelude" and f["fn"] not in rel})
        obligations += res.verified + res.errors - foreign
        discharged += res.verified
        for f in res.failures:
            mine = [o for o in f["obligations"] if any(o.startswith(p) for p in prefixes)]
            if not mine and f["fn"] in rel:
                # a function the property's proofs call: its contract is relied upon
                mine = f["obligations"] or ["contract of " + f["fn"]]
            if f["kind"] == "prelude" or f["fn"] is None:
                undecided.append("%s: proof text (lemma) failed: %s at generated line %d" % (unit, f["message"], f["gen_line"]))
            elif mine:
                f = dict(f, unit=unit, mine=mine, gen_path=res.gen_path)
                k = is_known(known, prop, f)
                if k:
                    known_hits.append((k, f))
                else:
                    violations.append(f)
            else:
                notes.append("%s: %s failed (%s) but carries no obligation of %s" % (unit, f["fn"], f["message"], prop))
        if res.status == "ok" and res.gen:
            for f in res.gen.fns[:3]:
                samples.append({"obligation": f["obligations"], "fn": f["qual"], "at": "%s:%d" % (f["file"], f["line"]), "result": "verified"})

    bounded = []
    native_fail = []
    # ---------------- Kani harness families (complete per concrete shape / bounded in lengths; see kani/README.md)
    kani_results = []
    kani_unexplored, kani_unconfirmed = [], []
    try:
        KANI_UNRELIABLE = set(json.load(open(os.path.join(VERIF, "kani", "unreliable.json"))))
    except Exception:
        KANI_UNRELIABLE = set()
    if cfg.get("kani"):
        try:
            import kani_run as K
            jobs = int(os.environ.get("VERIF_JOBS", "16"))
            sel = cfg["kani"] if tier == "thorough" else cfg.get("kani_quick", cfg["kani"])
            kani_results = K.run(sel, repo=repo, tier=tier, jobs=jobs, timeout_s=int(cfg.get("kani_timeout", 900)))
        except Exception as e:
            undecided.append("kani families could not run: %s" % str(e)[-400:])
        fams = {}
        for r in kani_results:
            fams.setdefault(r["family"], []).append(r)
            obligations += 1
            if r["status"] == "ok":
                discharged += 1
            elif r["status"] == "fail":
                f = {"message": "kani: " + "; ".join(c.get("description", "") for c in r.get("failed_checks", [])[:3]),
                     "fn": r["harness"], "file": (r.get("failed_checks") or [{}])[0].get("location", "cfdp-core/src/pdu"), "line": 0,
                     "obligations": ["O-%s-%s" % (prop, r["family"])], "mine": ["O-%s-%s" % (prop, r["harness"])],
                     "rendered": json.dumps({k: r.get(k) for k in ("harness", "failed_checks", "input_hex", "native_replay", "log")})[:4000],
                     "gen_line": 0, "harness": r["harness"], "kind": "kani", "input_hex": r.get("input_hex"), "native_replay": r.get("native_replay")}
                k = is_known(known, prop, f)
                if k:
                    known_hits.append((k, f))
                else:
                    violations.append(f)
                    native_fail.append({"program": "pdu_replay", "kani": True, "harness": r["harness"], "input_hex": r.get("input_hex"),
                                        "native_replay": r.get("native_replay")})
                    print("FAILING INPUT (kani harness %s, replayed natively: %s): %s" % (r["harness"], (r.get("native_replay") or {}).get("confirmed"), r.get("input_hex")))
            else:
                reason = r.get("reason", "undecided") or "undecided"
                if reason.startswith(("timeout", "out of memory", "memory limit")):
                    # not explored within the budget: says nothing about the property (exit code unaffected, listed in the evidence)
                    kani_unexplored.append("%s: %s" % (r["harness"], reason))
                elif (reason.startswith("check failed") or "did not reproduce natively" in reason) and (r["harness"] in KANI_UNRELIABLE or tier == "thorough"):
                    # CBMC reports a failed check that could not be turned into an input that misbehaves on the real code.  Harnesses known
                    # to do this on the unchanged tree (symbolic-width imprecision, kani/README.md) are listed in kani/unreliable.json;
                    # the thorough tier runs the families that contain them and only warns.
                    kani_unconfirmed.append("%s: %s" % (r["harness"], reason))
                else:
                    undecided.append("kani harness %s: %s" % (r["harness"], reason))
        decided = sum(1 for r in kani_results if r["status"] in ("ok", "fail"))
        if kani_results and decided * 2 < len(kani_results):
            undecided.append("kani: only %d of %d harnesses were decided within the budget" % (decided, len(kani_results)))
        for u in kani_unexplored[:20]:
            notes.append("kani harness not explored: " + u)
        for u in kani_unconfirmed[:40]:
            print("WARNING kani harness reports an unconfirmed failure (no input that misbehaves on the real code): " + u)
            notes.append("kani unconfirmed failure: " + u)
        for fam, rs in fams.items():
            kinds = {r.get("kind") for r in rs}
            bounded.append({"family": fam, "kind": "/".join(sorted(k for k in kinds if k)), "bound": rs[0].get("bound", ""), "harnesses": len(rs),
                            "ok": sum(1 for r in rs if r["status"] == "ok"), "cbmc_checks": sum(int(r.get("checks") or 0) for r in rs),
                            "time_s": round(sum(float(r.get("time_s") or 0) for r in rs), 1)})
        for r in kani_results[:4]:
            samples.append({"harness": r["harness"], "family": r["family"], "kind": r.get("kind"), "status": r["status"], "cbmc_checks": r.get("checks"), "time_s": r.get("time_s")})
        checker_cmds.append("cargo kani --harness <each of %d harnesses> (kani_run.py, families %s)" % (len(kani_results), ",".join(cfg["kani"])))
        trusted.add("Kani 0.68 / CBMC 6.11; stub core::str::from_utf8 -> one-step-per-octet DFA (cross-checked natively by `pdu_replay selftest-utf8`); see kani/README.md 'Stubs and assumptions'")

    # ---------------- bounded native checks (stand-ins for functions outside the verifier's reach; never counted as proved)
    for nat in cfg.get("native", []):
        import search as S
        args = nat["thorough"] if tier == "thorough" else nat["quick"]
        try:
            nrc, d = S.run_native(nat["prog"], args, repo)
        except Exception as e:
            undecided.append("native bounded check %s could not run: %s" % (nat["prog"], str(e)[-300:]))
            continue
        checker_cmds.append("%s %s (native, bounded)" % (nat["prog"], " ".join(args)))
        rec = {"obligation": nat["obligation"], "program": nat["prog"], "kind": "bounded", "bound": d.get("bound", nat.get("bound", "")),
               "evaluations": d.get("evaluations", 0), "result": "ok" if nrc == 0 else "fail"}
        bounded.append(rec)
        if nrc == 0:
            samples.append({"obligation": nat["obligation"], "bounded": True, "result": d})
        elif nrc == 1:
            f = {"message": "bounded native check disagrees with the specification", "fn": nat["fn"], "file": nat["file"], "line": 0,
                 "obligations": [nat["obligation"]], "mine": [nat["obligation"]], "rendered": json.dumps(d), "gen_line": 0, "harness": nat["prog"],
                 "kind": "native"}
            k = is_known(known, prop, f)
            if k:
                known_hits.append((k, f))
            else:
                violations.append(f)
                native_fail.append(dict(d, program=nat["prog"], native=True, tier=tier))
                print("FAILING INPUT (%s on the real code): %s" % (nat["prog"], json.dumps(d)))
        else:
            undecided.append("native bounded check %s exited %d: %s" % (nat["prog"], nrc, str(d)[:300]))

    # ---------------- thorough: stability under other solver seeds (reported, never an alarm)
    unstable = []
    if tier == "thorough" and not violations and not undecided:
        for (unit, prefixes) in cfg.get("verus", []):
            spec = os.path.join(VERIF, "spec", unit + ".vspec")
            for s in (seed + 1, seed + 2, seed + 3):
                r = VR.run_unit(spec, repo, seed=s % 100000, canary=False, tag="_s%d" % (s % 100000))
                smt_ms += r.smt_ms
                obligations += r.verified + r.errors
                discharged += r.verified + (r.errors if r.status != "ok" else 0) * 0
                if r.status != "ok":
                    unstable.append("%s under z3 seed %d: %s %s" % (unit, s, r.status, r.reason or [f["message"] for f in r.failures][:2]))
                    # do not count the unstable re-run in the totals
                    obligations -= r.verified + r.errors
                    discharged -= r.verified

    # ---------------- counterexample search for Verus failures (native, bounded, source of failing inputs only)
    cex = native_fail or None
    if [v for v in violations if v.get("kind") != "native"] and cfg.get("search"):
        try:
            import search as S
            cex = (cex or []) + (S.find(cfg["search"], repo, [v for v in violations if v.get("kind") != "native"]) or [])
            cex = cex or None
        except Exception as e:      # search is best effort
            notes.append("counterexample search failed to run: %s" % e)

    wall = time.time() - t0
    # ---------------- verdict
    rc = 0
    replay_path = None
    for (k, f) in known_hits:
        print("KNOWN-FINDING: property=%s %s" % (prop, k["text"].split(" ", 2)[-1] if " " in k["text"] else k["text"]))
    if violations:
        rc = 1
        os.makedirs(os.path.join(BUILD, "replay"), exist_ok=True)
        replay_path = os.path.join(BUILD, "replay", "%s-%s.json" % (prop, hashlib.sha1(json.dumps([v["message"] + str(v["fn"]) for v in violations]).encode()).hexdigest()[:10]))
        rep = {
            "property": prop,
            "failed_obligations": sorted({o for v in violations for o in v["mine"]}),
            "failures": [{"obligation": v["mine"], "function": v["fn"], "repo_location": "%s:%s" % (v["file"], v["line"]),
                          "verifier": "native-bounded" if v.get("kind") == "native" else "verus", "reason": v["message"], "verifier_output": v["rendered"],
                          "generated_file": v.get("gen_path"), "generated_line": v["gen_line"]} for v in violations],
            "failing_input": cex,
            "replay_cmd": ("python3 %s/vp.py replay %s" % (VERIF, replay_path)),
            "repo": repo,
        }
        json.dump(rep, open(replay_path, "w"), indent=1)
        for v in violations:
            print("FAILED %s in %s (%s:%s): %s" % (",".join(v["mine"]), v["fn"], v["file"], v["line"], v["message"]))
        tail = "" if cex else " no-failing-input-found"
        print("VIOLATION property=%s replay=%s%s" % (prop, replay_path, tail))
    elif undecided:
        rc = 2
        for u in undecided:
            print("UNDECIDED %s: %s" % (prop, u))
    else:
        print("OK %s: %d/%d obligations discharged (%s), %.1fs" % (prop, discharged, obligations,
              ", ".join(["%s %d fns" % (u.unit, u.verified) for u in units] + (["kani %d harnesses" % len(kani_results)] if kani_results else [])
                        + ["bounded %s: %d evaluations" % (b["program"], b["evaluations"]) for b in bounded if b.get("program")]), wall))
    for u in unstable:
        print("WARNING unstable proof: %s" % u)
    for n in notes:
        print("NOTE %s" % n)

    # ---------------- evidence
    level = cfg["level"] if rc == 0 else "other"
    if bounded and level == "proof":
        level = "other"      # a run with a bounded stand-in is never reported as a pure proof
    cov = {
        "obligations": obligations,
        "discharged": discharged,
        "checker_cmd": " ; ".join(checker_cmds),
        "trusted_base": sorted(trusted),
        "functions_under_contract": functions,
        "backends": ([{"name": "verus 0.2026.09.13 + z3", "units": [u.unit for u in units], "smt_ms": smt_ms,
                       "functions_verified": sum(u.verified for u in units)}] if units else []) +
                    ([{"name": "native bounded programs (rustc release, overflow checks on) -- bounded stand-in, not a proof",
                       "programs": [b["program"] for b in bounded if b.get("program")], "evaluations": sum(b.get("evaluations", 0) for b in bounded if b.get("program"))}]
                     if [b for b in bounded if b.get("program")] else []) +
                    ([{"name": "kani 0.68 + cbmc 6.11", "harnesses": len(kani_results), "ok": sum(1 for r in kani_results if r["status"] == "ok"),
                       "cpu_s": round(sum(float(r.get("time_s") or 0) for r in kani_results), 1)}] if kani_results else []),
        "rewrites_applied": rules,
        "samples": samples or [{"note": "no sample: run did not complete", "undecided": undecided[:3]}],
        "canary": {u.unit: u.canary_ok for u in units},
        "unstable_under_seeds": unstable,
        "bounds": cfg.get("bounds", {}),
        "bounded_checks": bounded,
        "explanation": cfg["level_text"] + (" THIS RUN DID NOT DISCHARGE EVERYTHING: rc=%d" % rc if rc else ""),
        "exhaustive": False,
        "known_findings_reproduced": [k["text"] for (k, f) in known_hits],
        "notes": notes,
    }
    if level != "proof":
        cov["evaluations"] = max(1, obligations) + sum(b.get("evaluations", 0) for b in bounded if b.get("program"))
        cov["distinct_nontrivial"] = max(2, discharged) + sum(b.get("evaluations", 0) for b in bounded if b.get("program"))
        cov["rule"] = ("one evaluation per function-level verification condition generated from the extracted code, plus one per input "
                       "executed by a bounded native program (each input is a distinct value of its enumeration)")
    ev = {
        "property_id": prop, "tier": tier, "seed": seed, "level": level, "coverage": cov,
        "assumptions": sorted(assumptions) + [cfg["level_note"]],
        "wall_s": round(wall, 2), "violations": len(violations),
    }
    # generated files of this run: kept only when something was reported (the replay file points into them); stale ones are pruned
    import shutil
    rundir = os.path.join(BUILD, "run_%d" % os.getpid())
    if rc == 0:
        shutil.rmtree(rundir, ignore_errors=True)
    for d in os.listdir(BUILD):
        full = os.path.join(BUILD, d)
        if d.startswith("run_") and full != rundir and os.path.isdir(full) and time.time() - os.path.getmtime(full) > 6 * 3600:
            shutil.rmtree(full, ignore_errors=True)
    # evidence describes /repo; a run against another tree (seeded change, selftest) leaves it alone
    evdir = EVID if os.path.abspath(repo) == "/repo" else os.path.join(BUILD, "evidence_other")
    os.makedirs(evdir, exist_ok=True)
    json.dump(ev, open(os.path.join(evdir, prop + ".json"), "w"), indent=1)
    return rc


# ------------------------------------------------------------------------------------------------ manifest

def manifest():
    props = [json.loads(l)["id"] for l in open(os.path.join(VERIF, "properties.jsonl"))]
    old = {}
    mp = os.path.join(VERIF, "MANIFEST.json")
    if os.path.exists(mp):
        old = json.load(open(mp))
    checks = []
    for pid in props:
        if pid not in P.PROPS or P.PROPS[pid].get("disabled"):
            continue
        c = P.PROPS[pid]
        checks.append({
            "property_id": pid,
            "quick_cmd": "python3 vp.py check %s --tier quick" % pid,
            "thorough_cmd": "python3 vp.py check %s --tier thorough" % pid,
            "evidence_file": "/verif/evidence/%s.json" % pid,
            "replay_cmd_template": "python3 vp.py replay {path}",
            "engine": "+".join((["verus"] if c.get("verus") else []) + (["kani"] if c.get("kani") else []) + (["native-bounded"] if c.get("native") else [])),
            "level_claimed": {"category": c["level"], "text": c["level_text"], "design_ref": c["design_ref"]},
            "level_note": c["level_note"],
            "technique": c["technique"],
        })
    na = [{"property_id": pid, "reason": P.NOT_APPLICABLE.get(pid, "check not built yet (planned, see DESIGN.md section 0)")}
          for pid in props if pid not in P.PROPS or P.PROPS[pid].get("disabled")]
    m = {
        "version": 1,
        "setup_cmd": "python3 vp.py setup",
        "hooks": old.get("hooks", {}),
        "engines": [
            {"name": "verus", "path": "/verif/vx", "serves_properties": [p for p in props if p in P.PROPS and P.PROPS[p].get("verus")],
             "kind_free_text": "extractor + contract injector (python) feeding Verus/Z3 single-file verification of the real functions"},
            {"name": "kani", "path": "/verif/kani", "serves_properties": [p for p in props if p in P.PROPS and P.PROPS[p].get("kani")],
             "kind_free_text": "generated Kani proof harnesses over /repo/cfdp-core (CBMC); loop-free full-width harnesses are complete, length-parameterised ones bounded"},
            {"name": "native-bounded", "path": "/verif/replay", "serves_properties": [p for p in props if p in P.PROPS and P.PROPS[p].get("native")],
             "kind_free_text": "bounded stand-ins only (never counted as proof): Rust programs compiled against /repo's crates (path dependency, overflow checks on) that "
                               "enumerate a stated input space on the real functions; also the source of concrete failing inputs for replay"},
        ],
        "checks": checks,
        "notes": "contract-based deductive verification; see DESIGN.md. exit 2 = undecided (never an alarm).",
        "not_applicable": na,
    }
    m["hooks"]["source_commits"] = ["5ce47b2"]
    m["hooks"]["enable"] = ("RUSTFLAGS=\"--cfg cfdp_verif\" when building the native program replay/daemon_native (search.py build_daemon_native); "
                            "cargo kani sets cfg kani for the harness crate; Verus units and the other native programs read /repo source text or use the public API and need no hook")
    m["hooks"].setdefault("guard", "cfdp_verif")
    m["hooks"].setdefault("enable", "cargo kani (sets cfg kani) for harnesses; Verus units and the native search include /repo source text and need no hook")
    m["hooks"].setdefault("baseline_off_cmd", "cd /repo && cargo test --workspace --no-fail-fast --offline")
    m["hooks"].setdefault("source_commits", [])
    m["hooks"].setdefault("add_only", True)
    json.dump(m, open(mp, "w"), indent=1)
    print("MANIFEST.json: %d checks, %d not applicable" % (len(checks), len(na)))


def setup():
    os.makedirs(BUILD, exist_ok=True)
    os.makedirs(EVID, exist_ok=True)
    ok = True
    for tool in ("verus", "cargo", "python3"):
        r = sh("which " + tool)
        if r.returncode:
            print("missing tool", tool)
            ok = False
    # warm up verus (first run unpacks its caches)
    p = os.path.join(BUILD, "warmup.rs")
    open(p, "w").write("use vstd::prelude::*;\nverus!{ proof fn w() ensures 1 + 1 == 2int {} }\nfn main() {}\n")
    r = sh(["verus", p], cwd=BUILD)
    print("verus warm-up rc=%d" % r.returncode)
    ok = ok and r.returncode == 0
    try:
        import search as S
        S.setup()
    except Exception as e:
        print("search setup skipped: %s" % e)
    try:
        # warm the Kani project: builds the dependencies once and clones the worker target directories
        import kani_run as K
        r = K.run(["c06_canon_small__prompt_k0"] if False else P.PROPS["C06"]["kani_quick"][:1], repo="/repo", tier="quick", jobs=16, timeout_s=900)
        print("kani warm-up: %s" % [(x["harness"], x["status"]) for x in r])
    except Exception as e:
        print("kani warm-up skipped: %s" % e)
    return 0 if ok else 1


def replay(path):
    rep = json.load(open(path))
    print("property %s, failed obligations: %s" % (rep["property"], ", ".join(rep["failed_obligations"])))
    for f in rep["failures"]:
        print("--- %s in %s (%s), verifier %s: %s" % (f["obligation"], f["function"], f["repo_location"], f["verifier"], f["reason"]))
        print(f["verifier_output"])
    if rep.get("failing_input"):
        import search as S
        return S.replay(rep["failing_input"], rep.get("repo", "/repo"))
    print("no concrete failing input recorded (no-failing-input-found); the verifier output above names the failed obligation")
    return 1


def main():
    ap = argparse.ArgumentParser()
    sub = ap.add_subparsers(dest="cmd", required=True)
    sub.add_parser("setup")
    c = sub.add_parser("check")
    c.add_argument("prop")
    c.add_argument("--tier", default=os.environ.get("VERIF_TIER", "quick"))
    c.add_argument("--repo", default="/repo")
    r = sub.add_parser("replay")
    r.add_argument("path")
    sub.add_parser("manifest")
    al = sub.add_parser("all")
    al.add_argument("--tier", default="quick")
    s = sub.add_parser("selftest")
    s.add_argument("--only")
    a = ap.parse_args()
    if a.cmd == "setup":
        sys.exit(setup())
    if a.cmd == "check":
        if a.prop not in P.PROPS:
            print("property %s is not claimed" % a.prop)
            sys.exit(2)
        seed = int(os.environ.get("VERIF_SEED", "0") or 0)
        try:
            rc = check(a.prop, a.tier, a.repo, seed)
        except Exception:
            # an internal error of the machinery is "undecided" (exit 2), never a violation (exit 1 is python's default for a crash)
            import traceback
            traceback.print_exc()
            print("UNDECIDED %s: internal error of the checking machinery (see traceback)" % a.prop)
            rc = 2
        sys.exit(rc)
    if a.cmd == "replay":
        sys.exit(replay(a.path))
    if a.cmd == "manifest":
        manifest()
    if a.cmd == "all":
        worst = 0
        for pid in sorted(P.PROPS):
            if P.PROPS[pid].get("disabled"):
                continue
            r = subprocess.run([sys.executable, os.path.join(VERIF, "vp.py"), "check", pid, "--tier", a.tier])
            worst = max(worst, r.returncode)
        sys.exit(worst)
    if a.cmd == "selftest":
        import selftest
        sys.exit(selftest.main(a.only))


if __name__ == "__main__":
    main()
