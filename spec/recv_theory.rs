// Specification vocabulary of the receiver unit (hand-written; no /repo code).

pub uninterp spec fn name_nonempty(m: Metadata) -> bool;

impl<T: FileStore> RecvTransaction<T> {
    pub open spec fn timers_ok(&self) -> bool {
        self.timer.ack.cfg_ok() && self.timer.nak.cfg_ok() && self.timer.inactivity.cfg_ok()
    }

    /// "this is a file transfer": metadata received and its source file name is not empty
    pub open spec fn file_transfer(&self) -> bool {
        self.metadata.is_some() && name_nonempty(self.metadata.unwrap())
    }

    /// what send_pdu would emit next is a NAK or a Finished PDU (dispatch order of send_pdu: prompt first, then per sub-state)
    pub open spec fn next_is_nak_or_finished(&self) -> bool {
        if self.prompt.is_some() {
            self.prompt.unwrap().nak_or_keep_alive == NakOrKeepAlive::Nak
        } else {
            match self.recv_state {
                RecvState::ReceiveData => self.ack.is_none() && self.naks@.len() > 0,
                _ => self.ack.is_none() && self.finished.is_some() && self.finished.unwrap().1,
            }
        }
    }

    /// C18: an unacknowledged-mode receiver is one-way: it holds nothing that would make send_pdu emit an ACK, a NAK or a keep-alive
    /// (no pending ACK, no prompt to answer, empty NAK queue, no delayed NAK check armed, NAK timer never started)
    pub open spec fn oneway_inv(&self) -> bool {
        self.config.transmission_mode == TransmissionMode::Unacknowledged ==> {
            &&& self.ack.is_none() && self.prompt.is_none() && self.naks@.len() == 0
            &&& self.delayed_nack_timers@.len() == 0
            &&& self.timer.nak.paused && !self.timer.nak@.occurred
        }
    }

    /// what has_pdu_to_send() answers for a transaction that is not suspended
    pub open spec fn wants_to_send(&self) -> bool {
        match self.recv_state {
            RecvState::ReceiveData => self.ack.is_some() || self.prompt.is_some() || self.naks@.len() > 0,
            _ => self.finished.is_some() && self.finished.unwrap().1,
        }
    }

    /// the inactivity timer of an active receiver is running
    pub open spec fn inact_live(&self) -> bool {
        !self.timer.inactivity.paused || self.state != TransactionState::Active
    }

    /// C03 "no transaction waits forever": an active receiver always has a PDU to offer to the transport, or a running timer, or a
    /// delayed NAK check armed - the only things besides a PDU from the peer that wake the transaction loop
    pub open spec fn alive_inv(&self) -> bool {
        self.state == TransactionState::Active ==> (self.wants_to_send()
            || !self.timer.ack.paused || !self.timer.nak.paused || !self.timer.inactivity.paused
            || self.delayed_nack_timers@.len() > 0)
    }

    /// limits never change, and a count that has reached its limit stays there (pausing only counts, never clears)
    pub open spec fn limits_sticky(&self, o: Self) -> bool {
        &&& self.timer.ack@.max == o.timer.ack@.max && self.timer.inactivity@.max == o.timer.inactivity@.max
        &&& (o.timer.ack@.count == o.timer.ack@.max ==> self.timer.ack@.count == self.timer.ack@.max)
        &&& (o.timer.inactivity@.count == o.timer.inactivity@.max ==> self.timer.inactivity@.count == self.timer.inactivity@.max)
        &&& self.timer.nak@.max == o.timer.nak@.max
        &&& (o.timer.nak@.count == o.timer.nak@.max ==> self.timer.nak@.count == self.timer.nak@.max)
    }

    /// the inactivity counter is as it was, or has been frozen (pause only counts pending expirations and stops)
    pub open spec fn inactivity_kept(&self, o: Self) -> bool {
        self.timer.inactivity == o.timer.inactivity || (self.timer.inactivity.paused && self.state != TransactionState::Active)
    }

    /// everything except the received-data bookkeeping and the open staging file
    pub open spec fn same_except_data(&self, o: Self) -> bool {
        &&& self.metadata == o.metadata && self.file_size == o.file_size && self.checksum == o.checksum && self.config == o.config
        &&& self.nak_received_file_size == o.nak_received_file_size
        &&& self.nak_procedure == o.nak_procedure && self.delayed_nack_timers == o.delayed_nack_timers
        &&& self.state == o.state && self.recv_state == o.recv_state && self.status == o.status
        &&& self.timer == o.timer && self.condition == o.condition
        &&& self.delivery_code == o.delivery_code && self.file_status == o.file_status
        &&& self.ack == o.ack && self.prompt == o.prompt && self.naks == o.naks && self.finished == o.finished
    }

    /// the bookkeeping of received data is untouched
    pub open spec fn data_unchanged(&self, o: Self) -> bool {
        &&& self.saved_segments == o.saved_segments
        &&& self.received_file_size == o.received_file_size
        &&& self.metadata == o.metadata
        &&& self.file_size == o.file_size
        &&& self.checksum == o.checksum
        &&& self.config == o.config
        &&& self.nak_received_file_size == o.nak_received_file_size
        &&& self.nak_procedure == o.nak_procedure
        &&& self.delayed_nack_timers == o.delayed_nack_timers
        &&& self.filestore_response == o.filestore_response
        &&& self.delivery_code == o.delivery_code && self.file_status == o.file_status
    }

    pub open spec fn same_except_finished(&self, o: Self) -> bool {
        &&& self.data_unchanged(o)
        &&& self.state == o.state && self.recv_state == o.recv_state && self.status == o.status
        &&& self.timer == o.timer && self.condition == o.condition
        &&& self.delivery_code == o.delivery_code && self.file_status == o.file_status
        &&& self.ack == o.ack && self.prompt == o.prompt && self.naks == o.naks
    }

    pub open spec fn same_except_state_timer(&self, o: Self) -> bool {
        &&& self.data_unchanged(o)
        &&& self.recv_state == o.recv_state && self.status == o.status && self.condition == o.condition
        &&& self.delivery_code == o.delivery_code && self.file_status == o.file_status
        &&& self.ack == o.ack && self.prompt == o.prompt && self.naks == o.naks && self.finished == o.finished
    }
}

/// C20: an indication that carries a progress figure carries the receiver's count of distinct bytes held
pub open spec fn indication_progress_ok(i: Indication, progress: u64) -> bool {
    match i {
        Indication::Fault(f) => f.progress == progress,
        Indication::Abandon(f) => f.progress == progress,
        Indication::Resumed(r) => r.progress == progress,
        _ => true,
    }
}

/// closure was requested (known only from the metadata)
pub open spec fn closure_wanted(m: Option<Metadata>) -> bool {
    m.is_some() && m.unwrap().closure_requested
}

/// C18 / C13: a Finished indication carries the outcome and the filestore responses the transaction holds
pub open spec fn indication_outcome_ok(i: Indication, condition: Condition, delivery_code: DeliveryCode, file_status: FileStatusCode, responses: Seq<FileStoreResponse>) -> bool {
    match i {
        Indication::Finished(f) => f.delivery_code == delivery_code && f.file_status == file_status && f.report.condition == condition
            // (the cancel path reports an empty list; no indication ever carries responses other than the recorded ones)
            && (f.filestore_responses@ == responses || f.filestore_responses@.len() == 0),
        _ => true,
    }
}

/// the action configured for a condition (Cancel when none is configured)
pub open spec fn configured_action(c: TransactionConfig, cond: Condition) -> FaultHandlerAction {
    if c.fault_handler_override@.contains_key(cond) { c.fault_handler_override@[cond] } else { FaultHandlerAction::Cancel }
}

// ASSUMED: #[derive(Hash, PartialEq, Eq)] on the field-less enum Condition is a lawful HashMap key
pub axiom fn axiom_condition_key_model()
    ensures vstd::std_specs::hash::obeys_key_model::<Condition>(),
;

pub open spec fn nak_window_end(file_size: Option<u64>, s: Seq<(u64, u64)>) -> int {
    match file_size {
        Some(n) => n as int,
        None => if s.len() == 0 { 0 } else { s.last().1 as int },
    }
}

/// the ranges of a NAK list as pairs, without the leading (0,0) metadata marker
pub open spec fn requests_of(r: Seq<SegmentRequestForm>, marker: bool) -> Seq<(u64, u64)> {
    let body = if marker && r.len() > 0 { r.subrange(1, r.len() as int) } else { r };
    Seq::new(body.len(), |i: int| (body[i].start_offset, body[i].end_offset))
}

impl vstd::std_specs::convert::FromSpecImpl<(u64, u64)> for SegmentRequestForm {
    open spec fn obeys_from_spec() -> bool { true }
    open spec fn from_spec(v: (u64, u64)) -> Self { SegmentRequestForm { start_offset: v.0, end_offset: v.1 } }
}

impl<T: FileStore> RecvTransaction<T> {
    /// C20 representation invariant: the progress figure is the byte count of the (well-formed) run list
    pub open spec fn progress_exact(&self) -> bool {
        wf(self.saved_segments.0@) && self.received_file_size == total(self.saved_segments.0@)
    }
}

pub open spec fn pdu_offset(p: FileDataPDU) -> u64 {
    match p { FileDataPDU::Segmented(d) => d.offset, FileDataPDU::Unsegmented(d) => d.offset }
}

pub open spec fn pdu_data(p: FileDataPDU) -> Seq<u8> {
    match p { FileDataPDU::Segmented(d) => d.file_data@, FileDataPDU::Unsegmented(d) => d.file_data@ }
}

// ---- abstract file (ASSUMED POSIX semantics)
pub uninterp spec fn file_bytes(f: File) -> Seq<u8>;
pub uninterp spec fn file_pos(f: File) -> int;

/// std: Seek::seek(SeekFrom::Start(o)) "Sets the offset to the provided number of bytes."
#[verifier::external_body]
pub fn vx_seek_start(h: &mut File, offset: u64) -> (r: TransactionResult<u64>)
    ensures
        file_bytes(*final(h)) == file_bytes(*old(h)),
        r is Ok ==> file_pos(*final(h)) == offset,
{
    unimplemented!()
}

/// std: Write::write_all "Attempts to write an entire buffer into this writer" (at the cursor, extending the file if needed)
#[verifier::external_body]
pub fn vx_write_all(h: &mut File, data: &[u8]) -> (r: TransactionResult<()>)
    ensures
        r is Ok ==> file_pos(*final(h)) == file_pos(*old(h)) + data@.len(),
{
    unimplemented!()
}

impl<T: FileStore> RecvTransaction<T> {
    pub open spec fn same_except_header(&self, o: Self) -> bool {
        &&& self.data_unchanged(o)
        &&& self.state == o.state && self.recv_state == o.recv_state && self.status == o.status
        &&& self.timer == o.timer && self.condition == o.condition
        &&& self.delivery_code == o.delivery_code && self.file_status == o.file_status
        &&& self.ack == o.ack && self.prompt == o.prompt && self.naks == o.naks && self.finished == o.finished
    }
}

impl<T: FileStore> RecvTransaction<T> {
    /// stands for the delayed-NAK prologue of handle_timeout (see recv.vspec): may change only the delayed-NAK timers and the NAK queue
    #[verifier::external_body]
    pub fn vx_collect_delayed_naks(&mut self)
        ensures
            final(self).same_except_naks(*old(self)),
            // (the block loops over the delayed-NAK timers: with none armed it does nothing)
            old(self).delayed_nack_timers@.len() == 0 ==> (final(self).naks == old(self).naks && final(self).delayed_nack_timers == old(self).delayed_nack_timers),
    {
        unimplemented!()
    }

    pub open spec fn same_except_naks(&self, o: Self) -> bool {
        &&& self.saved_segments == o.saved_segments && self.received_file_size == o.received_file_size
        &&& self.metadata == o.metadata && self.file_size == o.file_size && self.checksum == o.checksum && self.config == o.config
        &&& self.nak_received_file_size == o.nak_received_file_size && self.nak_procedure == o.nak_procedure
        &&& self.state == o.state && self.recv_state == o.recv_state && self.status == o.status
        &&& self.timer == o.timer && self.condition == o.condition
        &&& self.delivery_code == o.delivery_code && self.file_status == o.file_status
        &&& self.ack == o.ack && self.prompt == o.prompt && self.finished == o.finished
    }
}

pub open spec fn pdu_in_range(p: PDU) -> bool {
    match p.payload {
        PDUPayload::FileData(d) => pdu_offset(d) + pdu_data(d).len() <= u64::MAX,
        _ => true,
    }
}

/// stands for `TransactionError::UnexpectedPDU(seq, mode, text)` (built with format!/to_owned)
#[verifier::external_body]
pub fn vx_unexpected_pdu() -> TransactionError {
    unimplemented!()
}

impl<T: FileStore> RecvTransaction<T> {
    /// stands for the block that sends the MetadataRecv indication and builds `self.metadata` from the Metadata PDU
    #[verifier::external_body]
    pub fn vx_store_metadata(&mut self, metadata: MetadataPDU)
        ensures
            final(self).metadata.is_some(),
            final(self).same_except_metadata(*old(self)),
            old(self).inact_live() ==> final(self).inact_live(),
            final(self).recv_state == old(self).recv_state,
    {
        unimplemented!()
    }

    pub open spec fn same_except_metadata(&self, o: Self) -> bool {
        &&& self.saved_segments == o.saved_segments && self.received_file_size == o.received_file_size
        &&& self.file_size == o.file_size && self.checksum == o.checksum && self.config == o.config
        &&& self.nak_received_file_size == o.nak_received_file_size
        &&& self.nak_procedure == o.nak_procedure && self.delayed_nack_timers == o.delayed_nack_timers
        &&& self.state == o.state && self.recv_state == o.recv_state && self.status == o.status
        &&& self.timer == o.timer && self.condition == o.condition
        &&& self.delivery_code == o.delivery_code && self.file_status == o.file_status
        &&& self.ack == o.ack && self.prompt == o.prompt && self.naks == o.naks && self.finished == o.finished
    }
}

pub open spec fn pdu_is_eof_ok(p: PDU) -> bool {
    p.payload matches PDUPayload::Directive(Operations::EoF(e)) && e.condition == Condition::NoError
}

pub open spec fn pdu_eof_condition(p: PDU) -> Option<Condition> {
    match p.payload { PDUPayload::Directive(Operations::EoF(e)) => Some(e.condition), _ => None }
}

pub open spec fn pdu_eof_size(p: PDU) -> u64 {
    match p.payload { PDUPayload::Directive(Operations::EoF(e)) => e.file_size, _ => 0 }
}

pub open spec fn nak_delay(p: NakProcedure) -> Duration {
    match p { NakProcedure::Immediate(d) => d, NakProcedure::Deferred(d) => d }
}

impl<T: FileStore> RecvTransaction<T> {
    /// the meaning of has_naks() (O-C08-hasnaks)
    pub open spec fn needs_naks(&self) -> bool {
        self.metadata.is_none() || match self.file_size {
            Some(n) => exists|b: int| 0 <= b < n && !covered(self.saved_segments.0@, b),
            None => self.saved_segments.0@.len() > 1,
        }
    }

    /// the NAK queue asks for exactly what is missing (O-C08-all)
    pub open spec fn naks_cover(&self) -> bool {
        &&& gaps_exact(self.saved_segments.0@, requests_of(self.naks@, self.metadata.is_none()), 0, nak_window_end(self.file_size, self.saved_segments.0@))
        &&& (self.metadata.is_none() ==> self.naks@.len() > 0 && self.naks@[0] == (SegmentRequestForm { start_offset: 0, end_offset: 0 }))
    }
}

pub open spec fn fss_len(f: FileSizeFlag) -> u16 {
    match f { FileSizeFlag::Small => 4, FileSizeFlag::Large => 8 }
}

/// a NAK PDU with k segment requests (start and end of scope + k pairs, each offset f octets) is at most L octets long
pub open spec fn nak_fits(k: int, f: int, L: int) -> bool {
    (k + 1) * 2 * f <= L
}

pub open spec fn max_of_cfg(c: TransactionConfig) -> int {
    (c.file_size_segment as int - 2 * fss_len(c.file_size_flag)) / (2 * fss_len(c.file_size_flag) as int)
}

/// stands for `deque.drain(..n).collect()` (iterator adapter outside Verus' subset): takes the first n elements off the queue
#[verifier::external_body]
pub fn vx_drain_front(q: &mut VecDeque<SegmentRequestForm>, n: usize) -> (r: Vec<SegmentRequestForm>)
    requires n <= old(q)@.len(),
    ensures r@ == old(q)@.take(n as int), final(q)@ == old(q)@.skip(n as int),
{
    unimplemented!()
}

// `usize::min(a, b)` is the provided method Ord::min (no assume_specification possible): wrapper, declared rewrite
#[verifier::external_body]
pub fn usize_min(a: usize, b: usize) -> (r: usize)
    ensures r == (if a <= b { a } else { b }),
{
    unimplemented!()
}


// ---- filestore requests (C13): vocabulary over the opaque request / response types
/// `resp` is the result of executing `req` on the filestore (produced only by FileStore::process_request)
pub uninterp spec fn executed(resp: FileStoreResponse, req: FileStoreRequest) -> bool;
/// the response reports a failure (FileStoreStatus::is_fail)
pub uninterp spec fn failed(resp: FileStoreResponse) -> bool;
/// the "not performed" response for a request (FileStoreResponse::not_performed)
pub uninterp spec fn not_performed_of(req: FileStoreRequest) -> FileStoreResponse;

#[verifier::external_body]
pub fn vx_process_request<T: FileStore>(fs: &Arc<T>, req: &FileStoreRequest) -> (r: FileStoreResponse)
    ensures executed(r, *req),
{ unimplemented!() }

#[verifier::external_body]
pub fn vx_is_fail(rep: &FileStoreResponse) -> (r: bool)
    ensures r == failed(*rep),
{ unimplemented!() }

#[verifier::external_body]
pub fn vx_not_performed(req: &FileStoreRequest) -> (r: FileStoreResponse)
    ensures r == not_performed_of(*req),
{ unimplemented!() }

#[verifier::external_body]
pub fn vx_no_checksum() -> TransactionError { unimplemented!() }

pub open spec fn requests_of_meta(m: Option<Metadata>) -> Seq<FileStoreRequest> {
    match m { Some(meta) => meta.filestore_requests@, None => Seq::empty() }
}

/// a failure has been reported among the first j responses (the code's `fail_rest` flag before request j)
pub open spec fn failing_before(out: Seq<FileStoreResponse>, j: int) -> bool
    decreases j,
{
    if j <= 0 { false } else if failing_before(out, j - 1) { true } else { failed(out[j - 1]) }
}

/// the first n responses answer the first n requests in order: each one is the result of executing its request as long as no earlier
/// response reported a failure, and the not-performed response for its request after the first failure
pub open spec fn answered_prefix(out: Seq<FileStoreResponse>, reqs: Seq<FileStoreRequest>, n: int, failing: bool) -> bool {
    &&& 0 <= n <= reqs.len() && n <= out.len()
    &&& (forall|j: int| 0 <= j < n ==> (if failing_before(out, j) { #[trigger] out[j] == not_performed_of(reqs[j]) } else { executed(out[j], reqs[j]) }))
    &&& failing == failing_before(out, n)
}

pub open spec fn requests_answered(out: Seq<FileStoreResponse>, reqs: Seq<FileStoreRequest>) -> bool {
    out.len() == reqs.len() && answered_prefix(out, reqs, reqs.len() as int, failing_before(out, reqs.len() as int))
}

/// appending a response does not change the flag for the earlier positions
pub proof fn lemma_failing_before_push(out: Seq<FileStoreResponse>, x: FileStoreResponse, j: int)
    requires 0 <= j <= out.len(),
    ensures failing_before(out.push(x), j) == failing_before(out, j),
    decreases j,
{
    if j > 0 {
        lemma_failing_before_push(out, x, j - 1);
        assert(out.push(x)[j - 1] == out[j - 1]);
    }
}
