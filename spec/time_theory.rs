// Model of std::time for the timer proofs (ASSUMED; std's documented behaviour is quoted next to each item).
#[verifier::external_type_specification]
#[verifier::external_body]
pub struct ExInstant(Instant);

/// nanoseconds of an Instant since an arbitrary epoch / of a Duration  (uninterpreted views)
pub uninterp spec fn ins(i: Instant) -> int;
pub uninterp spec fn dns(d: Duration) -> nat;

// R9: associated constants of an external type become calls of these
#[verifier::external_body]
pub fn duration_zero() -> (d: Duration)
    ensures dns(d) == 0,
{
    Duration::ZERO
}

#[verifier::external_body]
pub fn duration_max() -> (d: Duration)
    ensures forall|x: Duration| dns(x) <= #[trigger] dns(d),
{
    Duration::MAX
}

// `Duration::min(a, b)` is the provided method Ord::min, which Verus cannot give an assume_specification; the unit rewrites
// the call to this wrapper (declared rewrite, reported).  std: "Compares and returns the minimum of two values."
#[verifier::external_body]
pub fn duration_min(a: Duration, b: Duration) -> (r: Duration)
    ensures dns(r) == (if dns(a) <= dns(b) { dns(a) } else { dns(b) }),
{
    Duration::min(a, b)
}

// std: "Returns an instant corresponding to now."  Nothing is assumed about the value (not even monotonicity).
pub assume_specification [ Instant::now ] () -> (r: Instant);

// std (since 1.60): "Returns the amount of time elapsed from another instant to this one, or zero duration if that instant is
// later than this one."
pub assume_specification [ Instant::duration_since ] (a: &Instant, earlier: Instant) -> (d: Duration)
    ensures
        dns(d) == (if ins(*a) - ins(earlier) > 0 { ins(*a) - ins(earlier) } else { 0 }),
;

// std: "Creates a new Duration from the specified number of whole seconds."
pub assume_specification [ Duration::from_secs ] (secs: u64) -> (d: Duration)
    ensures
        dns(d) == secs * 1_000_000_000,
;

// ---- operators on foreign types (the orphan rule forbids spec impls; axioms over vstd's operator spec functions instead).
// std: `Instant + Duration` panics on overflow of the underlying representation (not before ~584 years of uptime);
// treated as mathematical addition.
pub axiom fn axiom_instant_add(i: Instant, d: Duration)
    ensures
        #[trigger] AddSpec::add_req(i, d),
        <Instant as AddSpec<Duration>>::obeys_add_spec(),
        ins(AddSpec::add_spec(i, d)) == ins(i) + dns(d),
;

pub axiom fn axiom_instant_add_assign(i: Instant, d: Duration)
    ensures
        #[trigger] AddAssignSpec::add_assign_req(&i, d),
        <Instant as AddAssignSpec<Duration>>::obeys_add_assign_spec(),
        ins(*AddAssignSpec::add_assign_spec(&i, d)) == ins(i) + dns(d),
;

pub axiom fn axiom_instant_cmp(a: Instant, b: Instant)
    ensures
        <Instant as PartialOrdSpec<Instant>>::obeys_partial_cmp_spec(),
        #[trigger] a.partial_cmp_spec(&b) == Some(ord_of(ins(a), ins(b))),
;

pub axiom fn axiom_duration_cmp(a: Duration, b: Duration)
    ensures
        <Duration as PartialOrdSpec<Duration>>::obeys_partial_cmp_spec(),
        #[trigger] a.partial_cmp_spec(&b) == Some(ord_of(dns(a) as int, dns(b) as int)),
;

pub axiom fn axiom_duration_cmp_all()
    ensures
        <Duration as PartialOrdSpec<Duration>>::obeys_partial_cmp_spec(),
        forall|a: Duration, b: Duration| #![trigger a.partial_cmp_spec(&b)] a.partial_cmp_spec(&b) == Some(ord_of(dns(a) as int, dns(b) as int)),
;

pub axiom fn axiom_instant_cmp_all()
    ensures
        <Instant as PartialOrdSpec<Instant>>::obeys_partial_cmp_spec(),
        forall|a: Instant, b: Instant| #![trigger a.partial_cmp_spec(&b)] a.partial_cmp_spec(&b) == Some(ord_of(ins(a), ins(b))),
;

// std: Duration::is_zero "Returns true if this Duration spans no time."
pub assume_specification [ std::time::Duration::is_zero ] (d: &Duration) -> (r: bool)
    ensures r == (dns(*d) == 0),
;
