// Abstract counter: integer nanoseconds.  The exec contracts below say that the real Counter implements these functions.

pub struct CV {
    pub start: int,
    pub timeout: int,
    pub max: int,
    pub count: int,
    pub occurred: bool,
    pub paused: bool,
}

impl Counter {
    pub open spec fn view(&self) -> CV {
        CV {
            start: ins(self.start_time),
            timeout: dns(self.timeout) as int,
            max: self.max_count as int,
            count: self.count as int,
            occurred: self.occurred,
            paused: self.paused,
        }
    }

    /// configuration assumption that the code itself never checks (DESIGN.md section 5, row 13)
    pub open spec fn cfg_ok(&self) -> bool {
        dns(self.timeout) > 0 && self.count <= self.max_count && self.max_count < u32::MAX
    }
}

/// number of whole timeouts elapsed at `now` since the counter's start
pub open spec fn expirations(c: CV, now: int) -> int {
    if now - c.start < 0 { 0 } else { (now - c.start) / c.timeout }
}

pub open spec fn imin(a: int, b: int) -> int { if a <= b { a } else { b } }

/// effect of observing the clock at `now`: a paused counter does not move
pub open spec fn updated(c: CV, now: int) -> CV {
    if c.paused {
        c
    } else {
        let k = expirations(c, now);
        CV { start: c.start + k * c.timeout, count: imin(c.max, c.count + k), occurred: c.occurred || k > 0, ..c }
    }
}

/// what every clock observation preserves: limit and timeout, a count that sits at its limit, an expiry flag once raised
pub open spec fn count_sticky(o: CV, n: CV) -> bool {
    &&& n.max == o.max && n.timeout == o.timeout
    &&& (o.count == o.max ==> n.count == n.max)
    &&& n.count >= o.count
}

pub proof fn lemma_updated_sticky(c: CV, now: int)
    requires c.timeout > 0, 0 <= c.count <= c.max,
    ensures count_sticky(c, updated(c, now)), c.occurred ==> updated(c, now).occurred,
{
    if !c.paused {
        let k = expirations(c, now);
        if now - c.start >= 0 {
            assert(k >= 0) by (nonlinear_arith) requires k == (now - c.start) / c.timeout, now - c.start >= 0, c.timeout > 0;
        }
    }
}

pub proof fn lemma_expirations_unique(start: int, timeout: int, now: int, j: int)
    requires
        timeout > 0,
        j >= 0,
        j == 0 || start + j * timeout <= now,
        now - (start + j * timeout) < timeout,
        j > 0 ==> now - start >= 0,
    ensures
        j == (if now - start < 0 { 0 } else { (now - start) / timeout }),
{
    if now - start < 0 {
        assert(j == 0) by (nonlinear_arith)
            requires timeout > 0, j >= 0, j == 0 || start + j * timeout <= now, now - start < 0;
    } else {
        let d = now - start;
        assert(j * timeout <= d < (j + 1) * timeout) by (nonlinear_arith)
            requires timeout > 0, j >= 0, j == 0 || start + j * timeout <= now, now - (start + j * timeout) < timeout, d == now - start, d >= 0;
        vstd::arithmetic::div_mod::lemma_fundamental_div_mod_converse(d, timeout, j, d - j * timeout);
    }
}

pub open spec fn restarted(c: CV, n1: int, n2: int) -> CV {
    CV { start: n2, paused: false, occurred: false, ..updated(c, n1) }
}

/// time left until the next expiry, seen at `now`
pub open spec fn remaining(c: CV, now: int) -> nat {
    if c.start + c.timeout - now > 0 { (c.start + c.timeout - now) as nat } else { 0 }
}

pub open spec fn reset_at(c: CV, now: int) -> CV {
    CV { start: now, paused: false, occurred: false, count: 0, ..c }
}

pub open spec fn paused_at(c: CV, now: int) -> CV {
    CV { paused: true, ..updated(c, now) }
}

// ---------------------------------------------------------------- histories of one counter (C17 "never earlier")
//
// Every exec method of Counter is proved above to implement one of these abstract transitions, with the clock values
// existentially quantified.  The theorem below is about ANY sequence of such transitions after a reset at time t0 under a
// monotone clock: the count can only reach `max` once max * timeout has elapsed since that reset, and un-reset restarts
// never lose or invent an expiration (count * timeout <= start - t0 is an invariant).

pub enum Op {
    Update(int),
    Restart(int, int),
    Pause(int),
    Start,
}

pub open spec fn apply(c: CV, op: Op) -> CV {
    match op {
        Op::Update(n) => updated(c, n),
        Op::Restart(a, b) => restarted(c, a, b),
        Op::Pause(n) => paused_at(c, n),
        Op::Start => CV { paused: false, ..c },
    }
}

/// the last clock value read by the operation, given the last value read before it
pub open spec fn clock_after(op: Op, before: int) -> int {
    match op {
        Op::Update(n) => n,
        Op::Restart(a, b) => b,
        Op::Pause(n) => n,
        Op::Start => before,
    }
}

/// the operation's clock reads do not go backwards
pub open spec fn clock_ok(op: Op, before: int) -> bool {
    match op {
        Op::Update(n) => before <= n,
        Op::Restart(a, b) => before <= a <= b,
        Op::Pause(n) => before <= n,
        Op::Start => true,
    }
}

pub open spec fn run(c: CV, ops: Seq<Op>) -> CV
    decreases ops.len(),
{
    if ops.len() == 0 { c } else { apply(run(c, ops.drop_last()), ops.last()) }
}

pub open spec fn clock(t0: int, ops: Seq<Op>) -> int
    decreases ops.len(),
{
    if ops.len() == 0 { t0 } else { clock_after(ops.last(), clock(t0, ops.drop_last())) }
}

pub open spec fn monotone(t0: int, ops: Seq<Op>) -> bool
    decreases ops.len(),
{
    ops.len() == 0 || (monotone(t0, ops.drop_last()) && clock_ok(ops.last(), clock(t0, ops.drop_last())))
}

pub proof fn lemma_updated_bounds(c: CV, now: int, t0: int, before: int)
    requires
        c.timeout > 0,
        0 <= c.count <= c.max,
        t0 + c.count * c.timeout <= c.start <= before <= now,
    ensures
        t0 + updated(c, now).count * c.timeout <= updated(c, now).start <= now,
        0 <= updated(c, now).count <= c.max,
        updated(c, now).timeout == c.timeout,
        updated(c, now).max == c.max,
{
    if !c.paused {
        let k = expirations(c, now);
        let d = now - c.start;
        assert(k >= 0 && k * c.timeout <= d) by (nonlinear_arith)
            requires c.timeout > 0, d >= 0, k == d / c.timeout;
        let n2 = imin(c.max, c.count + k);
        assert(n2 * c.timeout <= (c.count + k) * c.timeout) by (nonlinear_arith)
            requires n2 <= c.count + k, c.timeout > 0;
        assert((c.count + k) * c.timeout == c.count * c.timeout + k * c.timeout) by (nonlinear_arith);
    }
}

/// Main history theorem.  c0 is the counter right after `reset` at t0.
pub proof fn lemma_limit_never_early(c0: CV, t0: int, ops: Seq<Op>)
    requires
        c0.timeout > 0,
        0 <= c0.max,
        c0.count == 0,
        c0.start == t0,
        monotone(t0, ops),
    ensures
        t0 + run(c0, ops).count * c0.timeout <= run(c0, ops).start <= clock(t0, ops),
        0 <= run(c0, ops).count <= c0.max,
        run(c0, ops).timeout == c0.timeout,
        run(c0, ops).max == c0.max,
        // the limit can only be reached once max * timeout has elapsed since the reset
        run(c0, ops).count == c0.max ==> clock(t0, ops) - t0 >= c0.max * c0.timeout,
    decreases ops.len(),
{
    if ops.len() > 0 {
        let pre = ops.drop_last();
        let c = run(c0, pre);
        let before = clock(t0, pre);
        lemma_limit_never_early(c0, t0, pre);
        match ops.last() {
            Op::Update(n) => {
                lemma_updated_bounds(c, n, t0, before);
            },
            Op::Restart(a, b) => {
                lemma_updated_bounds(c, a, t0, before);
            },
            Op::Pause(n) => {
                lemma_updated_bounds(c, n, t0, before);
            },
            Op::Start => {},
        }
    }
}
