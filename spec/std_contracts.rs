// ASSUMED contracts on std items that vstd does not specify (each is the documented behaviour).

// std: "Returns true if the deque is empty."
pub assume_specification<T, A: std::alloc::Allocator> [ std::collections::VecDeque::<T, A>::is_empty ] (v: &std::collections::VecDeque<T, A>) -> (r: bool)
    ensures
        r == (v@.len() == 0),
;

// std: "Returns the provided default result (if none), or applies a function to the contained value (if any)."
pub assume_specification<T, U, F> [ std::option::Option::<T>::map_or ] (o: std::option::Option<T>, d: U, f: F) -> (r: U)
    where F: std::ops::FnOnce(T,) -> U + std::marker::Destruct, U: std::marker::Destruct,
    requires
        o.is_some() ==> call_requires(f, (o.unwrap(),)),
    ensures
        match o { None => r == d, Some(x) => call_ensures(f, (x,), r) },
;

pub open spec fn ord_of(a: int, b: int) -> Ordering {
    if a < b { Ordering::Less } else if a == b { Ordering::Equal } else { Ordering::Greater }
}

pub open spec fn ord_rank(o: Ordering) -> int {
    match o { Ordering::Less => 0, Ordering::Equal => 1, Ordering::Greater => 2 }
}

// ASSUMED contract of std: `<[T]>::binary_search_by` (documented behaviour on a slice that is sorted w.r.t. `f`)
pub assume_specification<'a, T, F> [ <[T]>::binary_search_by ] (s: &'a [T], f: F) -> (r: Result<usize, usize>)
    where F: FnMut(&'a T) -> Ordering
    requires
        forall|i: int| 0 <= i < s@.len() ==> call_requires(f, (&#[trigger] s@[i],)),
        // sorted w.r.t. f: the comparator's answers are monotone Less.. Equal.. Greater.. along the slice
        // (stated for neighbours; equivalent to the all-pairs form by transitivity)
        forall|i: int, j: int, oi: Ordering, oj: Ordering|
            0 <= i && j == i + 1 && j < s@.len()
            && #[trigger] call_ensures(f, (&s@[i],), oi) && #[trigger] call_ensures(f, (&s@[j],), oj)
            ==> ord_rank(oi) <= ord_rank(oj),
    ensures
        match r {
            Ok(k) => k < s@.len() && s@.len() <= usize::MAX && call_ensures(f, (&s@[k as int],), Ordering::Equal),
            Err(k) => k <= s@.len()
                && (forall|i: int| 0 <= i < k ==> call_ensures(f, (&#[trigger] s@[i],), Ordering::Less))
                && (forall|i: int| k <= i < s@.len() ==> call_ensures(f, (&#[trigger] s@[i],), Ordering::Greater)),
        },
;

// ASSUMED contract of std: `std::cmp::max` (documented: returns the second argument when the two compare equal)
pub assume_specification<T> [ std::cmp::max ] (a: T, b: T) -> (r: T)
    where T: std::cmp::Ord + std::marker::Destruct
    ensures
        <T as OrdSpec>::obeys_cmp_spec() ==> r == (if a.cmp_spec(&b) == Ordering::Greater { a } else { b }),
;


pub fn rt_assert(b: bool)
    requires b,
{
}


// ASSUMED contract of std: `Iterator::fold` on a slice iterator = left fold over the remaining elements.
// std: "Folds every element into an accumulator by applying an operation, returning the final result."
// Stated for every spec function g that describes the closure: if each call of f returns g(acc, x), the result is the
// left fold of g (vstd's Seq::fold_left) over the elements the iterator still holds.
pub assume_specification<'a, T, B, F> [ <std::slice::Iter<'a, T> as std::iter::Iterator>::fold ] (it: std::slice::Iter<'a, T>, init: B, f: F) -> (r: B)
    where F: FnMut(B, &'a T) -> B,
    requires
        forall|b: B, x: &'a T| call_requires(f, (b, x)),
    ensures
        forall|g: spec_fn(B, &'a T) -> B, s: Seq<&'a T>|
            s =~= it.remaining() && (forall|b: B, x: &'a T, o: B| call_ensures(f, (b, x), o) ==> o == g(b, x))
            ==> r == #[trigger] s.fold_left(init, g),
;


// std: Option::replace "Replaces the actual value in the option by the value given in parameter, returning the old value if present"
pub assume_specification<T> [ std::option::Option::<T>::replace ] (o: &mut std::option::Option<T>, v: T) -> (r: std::option::Option<T>)
    ensures
        r == *old(o),
        *final(o) == Some(v),
;

// std: Result::unwrap_or "Returns the contained Ok value or a provided default."
pub assume_specification<T, E> [std::result::Result::<T, E>::unwrap_or] (r: std::result::Result<T, E>, default: T) -> (o: T)
    where E: std::marker::Destruct, T: std::marker::Destruct,
    ensures o == (match r { Ok(v) => v, Err(_) => default }),
;
