// CCSDS modular checksum: the 32-bit wrapping sum of the big-endian 4-byte words of the content, the last word zero padded.

pub open spec fn add32(a: u32, b: u32) -> u32 {
    ((a as int + b as int) % 0x1_0000_0000) as u32
}

pub open spec fn be32(b0: u8, b1: u8, b2: u8, b3: u8) -> u32 {
    ((b0 as u32) << 24) | ((b1 as u32) << 16) | ((b2 as u32) << 8) | (b3 as u32)
}

/// byte i of the content, zero beyond its end
pub open spec fn byte_or_0(c: Seq<u8>, i: int) -> u8 {
    if 0 <= i < c.len() { c[i] } else { 0 }
}

/// word k of the zero-padded content
pub open spec fn word(c: Seq<u8>, k: int) -> u32 {
    be32(byte_or_0(c, 4 * k), byte_or_0(c, 4 * k + 1), byte_or_0(c, 4 * k + 2), byte_or_0(c, 4 * k + 3))
}

/// sum of the first n words
pub open spec fn wsum(c: Seq<u8>, n: nat) -> u32
    decreases n,
{
    if n == 0 { 0 } else { add32(wsum(c, (n - 1) as nat), word(c, n - 1)) }
}

pub open spec fn nwords(len: nat) -> nat {
    ((len + 3) / 4) as nat
}

pub open spec fn modsum(c: Seq<u8>) -> u32 {
    wsum(c, nwords(c.len()))
}

// ASSUMED contract of std (`u32::from_be_bytes` takes `[u8; size_of::<u32>()]`, an anonymous constant Verus' assume_specification
// cannot name; the unit rewrites the call to this wrapper - declared rewrite, reported).
// std: "Creates a native endian integer value from its representation as a byte array in big endian."
#[verifier::external_body]
pub fn u32_from_be_bytes(bytes: [u8; 4]) -> (r: u32)
    ensures r == be32(bytes@[0], bytes@[1], bytes@[2], bytes@[3]),
{
    u32::from_be_bytes(bytes)
}
/// the accumulator state stands for the data `seen`
pub open spec fn repr(st: ModularChecksum, seen: Seq<u8>) -> bool {
    &&& st.filled < 4
    &&& st.filled == seen.len() % 4
    &&& st.sum == wsum(seen, (seen.len() / 4) as nat)
    &&& forall|i: int| 0 <= i < st.filled ==> st.pending@[i] == seen[seen.len() - st.filled + i]
    &&& forall|i: int| st.filled <= i < 4 ==> st.pending@[i] == 0
}

pub open spec fn finish_value(st: ModularChecksum) -> u32 {
    if st.filled > 0 { add32(st.sum, be32(st.pending@[0], st.pending@[1], st.pending@[2], st.pending@[3])) } else { st.sum }
}

/// words that lie completely inside a common prefix are the same
pub proof fn lemma_wsum_prefix(a: Seq<u8>, b: Seq<u8>, n: nat)
    requires
        4 * n <= a.len(),
        4 * n <= b.len(),
        forall|i: int| 0 <= i < 4 * n ==> a[i] == b[i],
    ensures
        wsum(a, n) == wsum(b, n),
    decreases n,
{
    if n > 0 {
        lemma_wsum_prefix(a, b, (n - 1) as nat);
    }
}

pub proof fn lemma_absorb_byte(st: ModularChecksum, seen: Seq<u8>, b: u8, st2: ModularChecksum)
    requires
        repr(st, seen),
        st.filled < 3 ==> (st2.filled == st.filled + 1 && st2.sum == st.sum && st2.pending@ == st.pending@.update(st.filled as int, b)),
        st.filled == 3 ==> (st2.filled == 0 && st2.sum == add32(st.sum, be32(st.pending@[0], st.pending@[1], st.pending@[2], b))
            && forall|i: int| 0 <= i < 4 ==> st2.pending@[i] == 0),
    ensures
        repr(st2, seen.push(b)),
{
    let s2 = seen.push(b);
    let q = (seen.len() / 4) as nat;
    if st.filled < 3 {
        assert(s2.len() / 4 == q);
        lemma_wsum_prefix(seen, s2, q);
    } else {
        assert(s2.len() == 4 * (q + 1));
        lemma_wsum_prefix(seen, s2, q);
        assert(word(s2, q as int) == be32(st.pending@[0], st.pending@[1], st.pending@[2], b));
    }
}

pub proof fn lemma_finish(st: ModularChecksum, seen: Seq<u8>)
    requires
        repr(st, seen),
    ensures
        finish_value(st) == modsum(seen),
{
    let q = (seen.len() / 4) as nat;
    if st.filled > 0 {
        assert(nwords(seen.len()) == q + 1);
        assert(word(seen, q as int) == be32(st.pending@[0], st.pending@[1], st.pending@[2], st.pending@[3]));
    } else {
        assert(nwords(seen.len()) == q);
    }
}

// ---------------------------------------------------------------- sensitivity: any single-byte change changes the checksum

pub proof fn lemma_be32_injective(a0: u8, a1: u8, a2: u8, a3: u8, b0: u8, b1: u8, b2: u8, b3: u8)
    requires
        be32(a0, a1, a2, a3) == be32(b0, b1, b2, b3),
    ensures
        a0 == b0 && a1 == b1 && a2 == b2 && a3 == b3,
{
    assert((((a0 as u32) << 24) | ((a1 as u32) << 16) | ((a2 as u32) << 8) | (a3 as u32))
        == (((b0 as u32) << 24) | ((b1 as u32) << 16) | ((b2 as u32) << 8) | (b3 as u32))
        ==> a0 == b0 && a1 == b1 && a2 == b2 && a3 == b3) by (bit_vector);
}

pub proof fn lemma_add32_injective(x: u32, y: u32, w: u32, v: u32)
    ensures
        (x != y) ==> add32(x, w) != add32(y, w),
        (w != v) ==> add32(x, w) != add32(x, v),
{
}

/// words of the common part agree, the word holding byte i differs, so the sums differ from that word on
pub proof fn lemma_wsum_single_byte(c: Seq<u8>, i: int, b: u8, n: nat)
    requires
        0 <= i < c.len(),
        b != c[i],
    ensures
        n <= i / 4 ==> wsum(c.update(i, b), n) == wsum(c, n),
        n > i / 4 ==> wsum(c.update(i, b), n) != wsum(c, n),
    decreases n,
{
    let d = c.update(i, b);
    if n > 0 {
        lemma_wsum_single_byte(c, i, b, (n - 1) as nat);
        let k = n - 1;
        if k == i / 4 {
            // the word that holds byte i
            if word(d, k) == word(c, k) {
                lemma_be32_injective(byte_or_0(d, 4 * k), byte_or_0(d, 4 * k + 1), byte_or_0(d, 4 * k + 2), byte_or_0(d, 4 * k + 3),
                    byte_or_0(c, 4 * k), byte_or_0(c, 4 * k + 1), byte_or_0(c, 4 * k + 2), byte_or_0(c, 4 * k + 3));
                assert(false);
            }
            lemma_add32_injective(wsum(c, k as nat), wsum(c, k as nat), word(d, k), word(c, k));
        } else {
            assert(word(d, k) == word(c, k));
            lemma_add32_injective(wsum(d, k as nat), wsum(c, k as nat), word(c, k), word(c, k));
        }
    }
}

/// C14: "sender and receiver disagree on any change of a single byte"
pub proof fn theorem_single_byte_change_changes_checksum(c: Seq<u8>, i: int, b: u8)
    requires
        0 <= i < c.len(),
        b != c[i],
    ensures
        modsum(c.update(i, b)) != modsum(c),
{
    lemma_wsum_single_byte(c, i, b, nwords(c.len()));
    assert(nwords(c.len()) > i / 4);
}
