// Error-detection algebra of CRC-16/IBM-3740 (CCITT-FALSE): g = x^16 + x^12 + x^5 + 1 (0x1021), MSB first,
// init 0xFFFF, no reflection, no final xor.  Fragment: included inside `verus! { .. }` after crc_theory.rs
// (bit_step, bit_steps, step8, crc_from).  Every lemma below is machine-checked; nothing is postulated.
//
// Channel model: the sender transmits the message octets m followed by the two octets of c = crc_from(0xffff, m)
// (big endian); the channel xors e onto m and ec onto c; the receiver accepts iff crc_from(0xffff, m ^ e) == c ^ ec.
// Error string E = e ++ [ec >> 8, ec & 0xff].  Bit numbering inside an octet: j = 0 is the most significant bit
// (the first one shifted into the register), so bit (octet i, bit j) has position 8*i + j in transmission order.
//
//  1  xor_seq, zeros
//  2  lemma_bit_step_linear, lemma_bit_steps_linear, lemma_step8_linear, lemma_crc_linear        (GF(2)-linearity)
//  3  lemma_crc_concat, lemma_crc_one/two/three, lemma_crc_zero_zeros, lemma_crc_leading_zero(s)
//  4  lemma_bit_step_injective, lemma_bit_steps_injective, lemma_bit_steps_nonzero, lemma_step8_injective,
//     lemma_step8_zero_octet_nonzero, lemma_crc_zeros_nonzero                                    (x is a unit mod g)
//  5  lemma_self_crc_is_zero, lemma_appended_crc:  step8(step8(s, ec >> 8), ec & 0xff) == 0 <==> s == ec
//  6  lemma_accept_iff_error_is_codeword:  the receiver accepts  <==>  crc_from(0, E) == 0
//  7  lemma_burst_window_nonzero (24 unrolled bit steps, one bit_vector query), lemma_burst_at_nonzero,
//     lemma_burst_nonzero:  is_burst(E) ==> crc_from(0, E) != 0;  lemma_short_nonzero
//  8  lemma_parity_bit_step, lemma_parity_crc, lemma_odd_weight_nonzero:  weight_odd(E) ==> crc_from(0, E) != 0;
//     lemma_weight_odd_is_odd_weight: weight_odd(E) <==> the number of set bits of E is odd
//  9  theorem_crc_detects: burst of <= 16 bits, or odd number of flipped bits  ==>  the receiver rejects;
//     lemma_single_bit_is_burst, lemma_double_bit_within_16_is_burst, theorem_single_bit_detected,
//     theorem_double_bit_within_16_detected
// 10  lemma_order_of_x: x^d mod g != 1 for 0 < d < 32767 and x^32767 mod g == 1 (verified checker, by (compute));
//     lemma_x_pow_is_one_iff; lemma_double_bit_any_distance: a two-bit error string d positions apart is a codeword
//     <==> 32767 divides d; theorem_double_bit_detected (d < 32767), theorem_double_bit_at_32767_undetected.

// ---------------------------------------------------------------------------------------------------------------
// 1. sequences
// ---------------------------------------------------------------------------------------------------------------

/// elementwise xor (the channel model: received = sent xor error pattern); length of `a`
pub open spec fn xor_seq(a: Seq<u8>, b: Seq<u8>) -> Seq<u8> {
    Seq::new(a.len(), |i: int| a[i] ^ b[i])
}

pub open spec fn zeros(n: nat) -> Seq<u8> {
    Seq::new(n, |i: int| 0u8)
}

// ---------------------------------------------------------------------------------------------------------------
// 2. linearity over GF(2)
// ---------------------------------------------------------------------------------------------------------------

pub proof fn lemma_bit_step_sanity()
    ensures
        bit_step(0x8000) == 0x1021,
        bit_step(0xffff) == 0xefdf,
        bit_step(0) == 0,
{
    assert(0x8000u16 & 0x8000 > 0) by (bit_vector);
    assert((0x8000u16 << 1) ^ 0x1021 == 0x1021) by (bit_vector);
    assert(0xffffu16 & 0x8000 > 0) by (bit_vector);
    assert((0xffffu16 << 1) ^ 0x1021 == 0xefdf) by (bit_vector);
    assert(!(0u16 & 0x8000 > 0)) by (bit_vector);
    assert((0u16 << 1) == 0) by (bit_vector);
}

pub proof fn lemma_bit_step_linear(a: u16, b: u16)
    ensures
        bit_step(a ^ b) == bit_step(a) ^ bit_step(b),
{
    assert((if (a ^ b) & 0x8000 > 0 { ((a ^ b) << 1) ^ 0x1021 } else { (a ^ b) << 1 })
        == (if a & 0x8000 > 0 { (a << 1) ^ 0x1021 } else { a << 1 })
         ^ (if b & 0x8000 > 0 { (b << 1) ^ 0x1021 } else { b << 1 })) by (bit_vector);
}

pub proof fn lemma_bit_steps_linear(a: u16, b: u16, n: nat)
    ensures
        bit_steps(a ^ b, n) == bit_steps(a, n) ^ bit_steps(b, n),
    decreases n,
{
    if n > 0 {
        lemma_bit_steps_linear(a, b, (n - 1) as nat);
        lemma_bit_step_linear(bit_steps(a, (n - 1) as nat), bit_steps(b, (n - 1) as nat));
    }
}

pub proof fn lemma_step8_linear(a: u16, b: u16, x: u16, y: u16)
    ensures
        step8(a ^ b, x ^ y) == step8(a, x) ^ step8(b, y),
{
    let p = (x & 0x00FF) << 8;
    let q = (y & 0x00FF) << 8;
    assert(((x ^ y) & 0x00FF) << 8 == ((x & 0x00FF) << 8) ^ ((y & 0x00FF) << 8)) by (bit_vector);
    assert((a ^ b) ^ (p ^ q) == (a ^ p) ^ (b ^ q)) by (bit_vector);
    lemma_bit_steps_linear(a ^ p, b ^ q, 8);
}

pub proof fn lemma_crc_linear(a: u16, b: u16, m: Seq<u8>, e: Seq<u8>)
    requires
        m.len() == e.len(),
    ensures
        crc_from(a ^ b, xor_seq(m, e)) == crc_from(a, m) ^ crc_from(b, e),
    decreases m.len(),
{
    let x = xor_seq(m, e);
    if m.len() > 0 {
        lemma_crc_linear(a, b, m.drop_last(), e.drop_last());
        assert(x.drop_last() =~= xor_seq(m.drop_last(), e.drop_last()));
        let mb = m.last();
        let eb = e.last();
        assert(x.last() == mb ^ eb);
        assert((mb ^ eb) as u16 == (mb as u16) ^ (eb as u16)) by (bit_vector);
        lemma_step8_linear(crc_from(a, m.drop_last()), crc_from(b, e.drop_last()), mb as u16, eb as u16);
    }
}

// ---------------------------------------------------------------------------------------------------------------
// 3. concatenation, zero strings
// ---------------------------------------------------------------------------------------------------------------

pub proof fn lemma_crc_concat(init: u16, a: Seq<u8>, b: Seq<u8>)
    ensures
        crc_from(init, a + b) == crc_from(crc_from(init, a), b),
    decreases b.len(),
{
    if b.len() == 0 {
        assert(a + b =~= a);
    } else {
        lemma_crc_concat(init, a, b.drop_last());
        assert((a + b).drop_last() =~= a + b.drop_last());
        assert((a + b).last() == b.last());
    }
}

pub proof fn lemma_crc_one(init: u16, b: u8)
    ensures
        crc_from(init, seq![b]) == step8(init, b as u16),
{
    let s = seq![b];
    assert(s.drop_last() =~= Seq::<u8>::empty());
    assert(s.last() == b);
    assert(crc_from(init, s.drop_last()) == init);
}

pub proof fn lemma_crc_two(init: u16, b1: u8, b2: u8)
    ensures
        crc_from(init, seq![b1, b2]) == step8(step8(init, b1 as u16), b2 as u16),
{
    let s = seq![b1, b2];
    assert(s.drop_last() =~= seq![b1]);
    assert(s.last() == b2);
    lemma_crc_one(init, b1);
}

pub proof fn lemma_crc_three(init: u16, b1: u8, b2: u8, b3: u8)
    ensures
        crc_from(init, seq![b1, b2, b3]) == step8(step8(step8(init, b1 as u16), b2 as u16), b3 as u16),
{
    let s = seq![b1, b2, b3];
    assert(s.drop_last() =~= seq![b1, b2]);
    assert(s.last() == b3);
    lemma_crc_two(init, b1, b2);
}

pub proof fn lemma_bit_steps_zero(n: nat)
    ensures
        bit_steps(0, n) == 0,
    decreases n,
{
    if n > 0 {
        lemma_bit_steps_zero((n - 1) as nat);
        lemma_bit_step_sanity();
    }
}

pub proof fn lemma_step8_zero()
    ensures
        step8(0, 0) == 0,
{
    assert(0u16 ^ ((0u16 & 0x00FF) << 8) == 0) by (bit_vector);
    lemma_bit_steps_zero(8);
}

pub proof fn lemma_zeros_drop_last(n: nat)
    requires
        n > 0,
    ensures
        zeros(n).drop_last() =~= zeros((n - 1) as nat),
        zeros(n).last() == 0u8,
{
}

pub proof fn lemma_crc_zero_zeros(n: nat)
    ensures
        crc_from(0, zeros(n)) == 0,
    decreases n,
{
    if n > 0 {
        lemma_crc_zero_zeros((n - 1) as nat);
        lemma_zeros_drop_last(n);
        lemma_step8_zero();
    }
}

/// a leading zero octet does not change the zero-initialised crc (lets short strings be padded)
pub proof fn lemma_crc_leading_zero(x: Seq<u8>)
    ensures
        crc_from(0, seq![0u8] + x) == crc_from(0, x),
{
    lemma_crc_concat(0, seq![0u8], x);
    lemma_crc_one(0, 0u8);
    lemma_step8_zero();
}

pub proof fn lemma_crc_leading_zeros(p: nat, x: Seq<u8>)
    ensures
        crc_from(0, zeros(p) + x) == crc_from(0, x),
{
    lemma_crc_concat(0, zeros(p), x);
    lemma_crc_zero_zeros(p);
}

// ---------------------------------------------------------------------------------------------------------------
// 4. injectivity (the constant term of the polynomial is 1, so multiplication by x is invertible mod g)
// ---------------------------------------------------------------------------------------------------------------

pub proof fn lemma_bit_step_injective(a: u16, b: u16)
    ensures
        bit_step(a) == bit_step(b) ==> a == b,
{
    assert((if a & 0x8000 > 0 { (a << 1) ^ 0x1021 } else { a << 1 })
        == (if b & 0x8000 > 0 { (b << 1) ^ 0x1021 } else { b << 1 }) ==> a == b) by (bit_vector);
}

pub proof fn lemma_bit_steps_injective(a: u16, b: u16, n: nat)
    ensures
        bit_steps(a, n) == bit_steps(b, n) ==> a == b,
    decreases n,
{
    if n > 0 {
        lemma_bit_steps_injective(a, b, (n - 1) as nat);
        lemma_bit_step_injective(bit_steps(a, (n - 1) as nat), bit_steps(b, (n - 1) as nat));
    }
}

pub proof fn lemma_bit_steps_nonzero(c: u16, n: nat)
    ensures
        bit_steps(c, n) == 0 <==> c == 0,
{
    lemma_bit_steps_zero(n);
    lemma_bit_steps_injective(c, 0, n);
}

pub proof fn lemma_step8_injective(a: u16, b: u16, x: u16)
    ensures
        step8(a, x) == step8(b, x) ==> a == b,
{
    let p = (x & 0x00FF) << 8;
    lemma_bit_steps_injective(a ^ p, b ^ p, 8);
    assert(a ^ p == b ^ p ==> a == b) by (bit_vector);
}

pub proof fn lemma_step8_zero_octet_nonzero(c: u16)
    ensures
        step8(c, 0) == 0 <==> c == 0,
{
    lemma_step8_zero();
    lemma_step8_injective(c, 0, 0);
}

pub proof fn lemma_crc_zeros_nonzero(s: u16, n: nat)
    ensures
        crc_from(s, zeros(n)) == 0 <==> s == 0,
    decreases n,
{
    if n > 0 {
        lemma_crc_zeros_nonzero(s, (n - 1) as nat);
        lemma_zeros_drop_last(n);
        lemma_step8_zero_octet_nonzero(crc_from(s, zeros((n - 1) as nat)));
    }
}

// ---------------------------------------------------------------------------------------------------------------
// 5. appended crc
// ---------------------------------------------------------------------------------------------------------------

/// feeding the two octets of a register value into that very register value clears it
pub proof fn lemma_self_crc_is_zero(ec: u16)
    ensures
        step8(step8(ec, ec >> 8), ec & 0xff) == 0,
{
    // ec xor (high octet << 8) leaves only the low octet; eight shifts of a value < 256 never see the top bit
    let lo = ec & 0xff;
    assert(ec ^ (((ec >> 8) & 0x00FF) << 8) == ec & 0xff) by (bit_vector);
    let t0 = lo;
    let t1 = bit_step(t0);
    let t2 = bit_step(t1);
    let t3 = bit_step(t2);
    let t4 = bit_step(t3);
    let t5 = bit_step(t4);
    let t6 = bit_step(t5);
    let t7 = bit_step(t6);
    let t8 = bit_step(t7);
    assert(bit_steps(t0, 0) == t0);
    assert(bit_steps(t0, 1) == t1);
    assert(bit_steps(t0, 2) == t2);
    assert(bit_steps(t0, 3) == t3);
    assert(bit_steps(t0, 4) == t4);
    assert(bit_steps(t0, 5) == t5);
    assert(bit_steps(t0, 6) == t6);
    assert(bit_steps(t0, 7) == t7);
    assert(bit_steps(t0, 8) == t8);
    assert(t8 == t0 << 8) by (bit_vector)
        requires
            t0 == ec & 0xff,
            t1 == (if t0 & 0x8000 > 0 { (t0 << 1) ^ 0x1021 } else { t0 << 1 }),
            t2 == (if t1 & 0x8000 > 0 { (t1 << 1) ^ 0x1021 } else { t1 << 1 }),
            t3 == (if t2 & 0x8000 > 0 { (t2 << 1) ^ 0x1021 } else { t2 << 1 }),
            t4 == (if t3 & 0x8000 > 0 { (t3 << 1) ^ 0x1021 } else { t3 << 1 }),
            t5 == (if t4 & 0x8000 > 0 { (t4 << 1) ^ 0x1021 } else { t4 << 1 }),
            t6 == (if t5 & 0x8000 > 0 { (t5 << 1) ^ 0x1021 } else { t5 << 1 }),
            t7 == (if t6 & 0x8000 > 0 { (t6 << 1) ^ 0x1021 } else { t6 << 1 }),
            t8 == (if t7 & 0x8000 > 0 { (t7 << 1) ^ 0x1021 } else { t7 << 1 });
    assert(step8(ec, ec >> 8) == lo << 8);
    assert((lo << 8) ^ (((ec & 0xff) & 0x00FF) << 8) == 0) by (bit_vector)
        requires lo == ec & 0xff;
    lemma_bit_steps_zero(8);
}

pub proof fn lemma_appended_crc(s: u16, ec: u16)
    ensures
        step8(step8(s, ec >> 8), ec & 0xff) == 0 <==> s == ec,
{
    let d = s ^ ec;
    let hi = ec >> 8;
    let lo = ec & 0xff;
    assert((s ^ ec) ^ ec == s) by (bit_vector);
    assert(0u16 ^ hi == hi) by (bit_vector);
    assert(0u16 ^ lo == lo) by (bit_vector);
    lemma_step8_linear(d, ec, 0, hi);
    lemma_step8_linear(step8(d, 0), step8(ec, hi), 0, lo);
    lemma_self_crc_is_zero(ec);
    let r = step8(step8(d, 0), 0);
    assert(r ^ 0 == r) by (bit_vector);
    assert(step8(step8(s, hi), lo) == r);
    lemma_step8_zero_octet_nonzero(step8(d, 0));
    lemma_step8_zero_octet_nonzero(d);
    assert(s ^ ec == 0 <==> s == ec) by (bit_vector);
}

// ---------------------------------------------------------------------------------------------------------------
// 6. acceptance characterisation
// ---------------------------------------------------------------------------------------------------------------

/// the total error string: error on the message octets followed by the error on the two crc octets (big endian)
pub open spec fn error_string(e: Seq<u8>, ec: u16) -> Seq<u8> {
    e + seq![(ec >> 8) as u8, (ec & 0xff) as u8]
}

pub proof fn lemma_accept_iff_error_is_codeword(m: Seq<u8>, e: Seq<u8>, ec: u16)
    requires
        m.len() == e.len(),
    ensures
        (crc_from(0xffff, xor_seq(m, e)) == crc_from(0xffff, m) ^ ec)
            <==> crc_from(0, e + seq![(ec >> 8) as u8, (ec & 0xff) as u8]) == 0,
{
    let c = crc_from(0xffff, m);
    let s = crc_from(0, e);
    let hi = (ec >> 8) as u8;
    let lo = (ec & 0xff) as u8;
    assert(0xffffu16 ^ 0 == 0xffff) by (bit_vector);
    lemma_crc_linear(0xffff, 0, m, e);
    assert(crc_from(0xffff, xor_seq(m, e)) == c ^ s);
    assert(c ^ s == c ^ ec <==> s == ec) by (bit_vector);
    lemma_crc_concat(0, e, seq![hi, lo]);
    lemma_crc_two(s, hi, lo);
    // step8 masks its octet argument, so the u8 round trip is invisible
    assert(((hi as u16) & 0x00FF) << 8 == ((ec >> 8) & 0x00FF) << 8) by (bit_vector)
        requires hi == (ec >> 8) as u8;
    assert(((lo as u16) & 0x00FF) << 8 == ((ec & 0xff) & 0x00FF) << 8) by (bit_vector)
        requires lo == (ec & 0xff) as u8;
    assert(step8(s, hi as u16) == step8(s, ec >> 8));
    assert(step8(step8(s, hi as u16), lo as u16) == step8(step8(s, ec >> 8), ec & 0xff));
    lemma_appended_crc(s, ec);
}
// ---------------------------------------------------------------------------------------------------------------
// 7. bursts of at most 16 bits
// ---------------------------------------------------------------------------------------------------------------

/// the 24-bit value of three consecutive octets
pub open spec fn window24(b1: u8, b2: u8, b3: u8) -> u32 {
    ((b1 as u32) << 16) | ((b2 as u32) << 8) | (b3 as u32)
}
/// all set bits of the 24-bit value w lie in bit positions s .. s+15
pub open spec fn fits16(w: u32, s: u32) -> bool {
    w & !(0xFFFFu32 << s) & 0xFFFFFF == 0
}
/// w is non-zero and its set bits span at most 16 consecutive positions
pub open spec fn burst16(w: u32) -> bool {
    w != 0 && (fits16(w, 0) || fits16(w, 1) || fits16(w, 2) || fits16(w, 3) || fits16(w, 4) || fits16(w, 5) || fits16(w, 6) || fits16(w, 7) || fits16(w, 8))
}
/// three octets holding a burst of at most 16 bits, fed into the zero register, leave it non-zero:
/// (v * x^s) mod g != 0 for every non-zero v of degree < 16, checked on the 24 unrolled bit steps
pub proof fn lemma_burst_window_nonzero(b1: u8, b2: u8, b3: u8)
    requires
        burst16(window24(b1, b2, b3)),
    ensures
        step8(step8(step8(0, b1 as u16), b2 as u16), b3 as u16) != 0,
{
    let w = window24(b1, b2, b3);

    let r0 = 0u16 ^ (((b1 as u16) & 0x00FF) << 8);
    let r1 = bit_step(r0);
    let r2 = bit_step(r1);
    let r3 = bit_step(r2);
    let r4 = bit_step(r3);
    let r5 = bit_step(r4);
    let r6 = bit_step(r5);
    let r7 = bit_step(r6);
    let r8 = bit_step(r7);
    assert(bit_steps(r0, 0) == r0);
    assert(bit_steps(r0, 1) == r1);
    assert(bit_steps(r0, 2) == r2);
    assert(bit_steps(r0, 3) == r3);
    assert(bit_steps(r0, 4) == r4);
    assert(bit_steps(r0, 5) == r5);
    assert(bit_steps(r0, 6) == r6);
    assert(bit_steps(r0, 7) == r7);
    assert(bit_steps(r0, 8) == r8);
    assert(r8 == step8(0u16, b1 as u16));
    let s0 = r8 ^ (((b2 as u16) & 0x00FF) << 8);
    let s1 = bit_step(s0);
    let s2 = bit_step(s1);
    let s3 = bit_step(s2);
    let s4 = bit_step(s3);
    let s5 = bit_step(s4);
    let s6 = bit_step(s5);
    let s7 = bit_step(s6);
    let s8 = bit_step(s7);
    assert(bit_steps(s0, 0) == s0);
    assert(bit_steps(s0, 1) == s1);
    assert(bit_steps(s0, 2) == s2);
    assert(bit_steps(s0, 3) == s3);
    assert(bit_steps(s0, 4) == s4);
    assert(bit_steps(s0, 5) == s5);
    assert(bit_steps(s0, 6) == s6);
    assert(bit_steps(s0, 7) == s7);
    assert(bit_steps(s0, 8) == s8);
    assert(s8 == step8(r8, b2 as u16));
    let t0 = s8 ^ (((b3 as u16) & 0x00FF) << 8);
    let t1 = bit_step(t0);
    let t2 = bit_step(t1);
    let t3 = bit_step(t2);
    let t4 = bit_step(t3);
    let t5 = bit_step(t4);
    let t6 = bit_step(t5);
    let t7 = bit_step(t6);
    let t8 = bit_step(t7);
    assert(bit_steps(t0, 0) == t0);
    assert(bit_steps(t0, 1) == t1);
    assert(bit_steps(t0, 2) == t2);
    assert(bit_steps(t0, 3) == t3);
    assert(bit_steps(t0, 4) == t4);
    assert(bit_steps(t0, 5) == t5);
    assert(bit_steps(t0, 6) == t6);
    assert(bit_steps(t0, 7) == t7);
    assert(bit_steps(t0, 8) == t8);
    assert(t8 == step8(s8, b3 as u16));
    assert(t8 != 0) by (bit_vector)
        requires
            w == ((b1 as u32) << 16) | ((b2 as u32) << 8) | (b3 as u32),
            w != 0,
            w & !(0xFFFFu32 << 0u32) & 0xFFFFFF == 0 || w & !(0xFFFFu32 << 1u32) & 0xFFFFFF == 0 || w & !(0xFFFFu32 << 2u32) & 0xFFFFFF == 0 || w & !(0xFFFFu32 << 3u32) & 0xFFFFFF == 0 || w & !(0xFFFFu32 << 4u32) & 0xFFFFFF == 0 || w & !(0xFFFFu32 << 5u32) & 0xFFFFFF == 0 || w & !(0xFFFFu32 << 6u32) & 0xFFFFFF == 0 || w & !(0xFFFFu32 << 7u32) & 0xFFFFFF == 0 || w & !(0xFFFFu32 << 8u32) & 0xFFFFFF == 0,
            r0 == 0u16 ^ (((b1 as u16) & 0x00FF) << 8),
            r1 == (if r0 & 0x8000 > 0 { (r0 << 1) ^ 0x1021 } else { r0 << 1 }),
            r2 == (if r1 & 0x8000 > 0 { (r1 << 1) ^ 0x1021 } else { r1 << 1 }),
            r3 == (if r2 & 0x8000 > 0 { (r2 << 1) ^ 0x1021 } else { r2 << 1 }),
            r4 == (if r3 & 0x8000 > 0 { (r3 << 1) ^ 0x1021 } else { r3 << 1 }),
            r5 == (if r4 & 0x8000 > 0 { (r4 << 1) ^ 0x1021 } else { r4 << 1 }),
            r6 == (if r5 & 0x8000 > 0 { (r5 << 1) ^ 0x1021 } else { r5 << 1 }),
            r7 == (if r6 & 0x8000 > 0 { (r6 << 1) ^ 0x1021 } else { r6 << 1 }),
            r8 == (if r7 & 0x8000 > 0 { (r7 << 1) ^ 0x1021 } else { r7 << 1 }),
            s0 == r8 ^ (((b2 as u16) & 0x00FF) << 8),
            s1 == (if s0 & 0x8000 > 0 { (s0 << 1) ^ 0x1021 } else { s0 << 1 }),
            s2 == (if s1 & 0x8000 > 0 { (s1 << 1) ^ 0x1021 } else { s1 << 1 }),
            s3 == (if s2 & 0x8000 > 0 { (s2 << 1) ^ 0x1021 } else { s2 << 1 }),
            s4 == (if s3 & 0x8000 > 0 { (s3 << 1) ^ 0x1021 } else { s3 << 1 }),
            s5 == (if s4 & 0x8000 > 0 { (s4 << 1) ^ 0x1021 } else { s4 << 1 }),
            s6 == (if s5 & 0x8000 > 0 { (s5 << 1) ^ 0x1021 } else { s5 << 1 }),
            s7 == (if s6 & 0x8000 > 0 { (s6 << 1) ^ 0x1021 } else { s6 << 1 }),
            s8 == (if s7 & 0x8000 > 0 { (s7 << 1) ^ 0x1021 } else { s7 << 1 }),
            t0 == s8 ^ (((b3 as u16) & 0x00FF) << 8),
            t1 == (if t0 & 0x8000 > 0 { (t0 << 1) ^ 0x1021 } else { t0 << 1 }),
            t2 == (if t1 & 0x8000 > 0 { (t1 << 1) ^ 0x1021 } else { t1 << 1 }),
            t3 == (if t2 & 0x8000 > 0 { (t2 << 1) ^ 0x1021 } else { t2 << 1 }),
            t4 == (if t3 & 0x8000 > 0 { (t3 << 1) ^ 0x1021 } else { t3 << 1 }),
            t5 == (if t4 & 0x8000 > 0 { (t4 << 1) ^ 0x1021 } else { t4 << 1 }),
            t6 == (if t5 & 0x8000 > 0 { (t5 << 1) ^ 0x1021 } else { t5 << 1 }),
            t7 == (if t6 & 0x8000 > 0 { (t6 << 1) ^ 0x1021 } else { t6 << 1 }),
            t8 == (if t7 & 0x8000 > 0 { (t7 << 1) ^ 0x1021 } else { t7 << 1 });
}

// ---------------------------------------------------------------------------------------------------------------
// 7b. burst patterns on octet strings
// ---------------------------------------------------------------------------------------------------------------

/// `x` is zero except for three consecutive octets starting at octet `p`, whose 24 bits hold a burst of <= 16 bits
pub open spec fn burst_at(x: Seq<u8>, p: nat, b1: u8, b2: u8, b3: u8, q: nat) -> bool {
    x == zeros(p) + seq![b1, b2, b3] + zeros(q) && burst16(window24(b1, b2, b3))
}

/// burst of at most 16 bits somewhere in `x`; the second alternative (one zero octet of padding in front) covers
/// strings shorter than three octets and bursts that begin in the first octets
pub open spec fn is_burst(x: Seq<u8>) -> bool {
    (exists|p: nat, b1: u8, b2: u8, b3: u8, q: nat| burst_at(x, p, b1, b2, b3, q))
    || (exists|p: nat, b1: u8, b2: u8, b3: u8, q: nat| burst_at(seq![0u8] + x, p, b1, b2, b3, q))
}

pub proof fn lemma_burst_at_nonzero(x: Seq<u8>, p: nat, b1: u8, b2: u8, b3: u8, q: nat)
    requires
        burst_at(x, p, b1, b2, b3, q),
    ensures
        crc_from(0, x) != 0,
{
    let win = seq![b1, b2, b3];
    lemma_crc_concat(0, zeros(p) + win, zeros(q));
    lemma_crc_concat(0, zeros(p), win);
    lemma_crc_zero_zeros(p);
    lemma_crc_three(0, b1, b2, b3);
    lemma_burst_window_nonzero(b1, b2, b3);
    lemma_crc_zeros_nonzero(crc_from(0, win), q);
}

/// Burst theorem: an error string that is a single burst of at most 16 bits is never a codeword
pub proof fn lemma_burst_nonzero(x: Seq<u8>)
    requires
        is_burst(x),
    ensures
        crc_from(0, x) != 0,
{
    if exists|p: nat, b1: u8, b2: u8, b3: u8, q: nat| burst_at(x, p, b1, b2, b3, q) {
        let (p, b1, b2, b3, q) = choose|p: nat, b1: u8, b2: u8, b3: u8, q: nat| burst_at(x, p, b1, b2, b3, q);
        lemma_burst_at_nonzero(x, p, b1, b2, b3, q);
    } else {
        let y = seq![0u8] + x;
        let (p, b1, b2, b3, q) = choose|p: nat, b1: u8, b2: u8, b3: u8, q: nat| burst_at(y, p, b1, b2, b3, q);
        lemma_burst_at_nonzero(y, p, b1, b2, b3, q);
        lemma_crc_leading_zero(x);
    }
}

/// variants for short strings: one or two octets holding any non-zero value
pub proof fn lemma_short_nonzero(b2: u8, b3: u8)
    ensures
        b3 != 0 ==> crc_from(0, seq![b3]) != 0,
        (b2 != 0 || b3 != 0) ==> crc_from(0, seq![b2, b3]) != 0,
{
    let w1 = window24(0, 0, b3);
    let w2 = window24(0, b2, b3);
    assert(b3 != 0 ==> w1 != 0 && w1 & !(0xFFFFu32 << 0u32) & 0xFFFFFF == 0) by (bit_vector)
        requires w1 == ((0u8 as u32) << 16) | ((0u8 as u32) << 8) | (b3 as u32);
    assert((b2 != 0 || b3 != 0) ==> w2 != 0 && w2 & !(0xFFFFu32 << 0u32) & 0xFFFFFF == 0) by (bit_vector)
        requires w2 == ((0u8 as u32) << 16) | ((b2 as u32) << 8) | (b3 as u32);
    if b3 != 0 {
        let x = seq![b3];
        assert(seq![0u8] + (seq![0u8] + x) =~= zeros(0) + seq![0u8, 0u8, b3] + zeros(0));
        lemma_burst_at_nonzero(seq![0u8] + (seq![0u8] + x), 0, 0, 0, b3, 0);
        lemma_crc_leading_zero(seq![0u8] + x);
        lemma_crc_leading_zero(x);
    }
    if b2 != 0 || b3 != 0 {
        let x = seq![b2, b3];
        assert(seq![0u8] + x =~= zeros(0) + seq![0u8, b2, b3] + zeros(0));
        lemma_burst_at_nonzero(seq![0u8] + x, 0, 0, b2, b3, 0);
        lemma_crc_leading_zero(x);
    }
}

// ---------------------------------------------------------------------------------------------------------------
// 8. odd weight
// ---------------------------------------------------------------------------------------------------------------

/// xor of the 16 bits
pub open spec fn parity16(c: u16) -> bool {
    (c ^ (c >> 1) ^ (c >> 2) ^ (c >> 3) ^ (c >> 4) ^ (c >> 5) ^ (c >> 6) ^ (c >> 7)
       ^ (c >> 8) ^ (c >> 9) ^ (c >> 10) ^ (c >> 11) ^ (c >> 12) ^ (c >> 13) ^ (c >> 14) ^ (c >> 15)) & 1 == 1
}

/// xor of the 8 bits
pub open spec fn parity8(b: u8) -> bool {
    (b ^ (b >> 1) ^ (b >> 2) ^ (b >> 3) ^ (b >> 4) ^ (b >> 5) ^ (b >> 6) ^ (b >> 7)) & 1 == 1
}

/// number of set bits of an octet
pub open spec fn popcount8(b: u8) -> int {
    (b & 1) + ((b >> 1) & 1) + ((b >> 2) & 1) + ((b >> 3) & 1) + ((b >> 4) & 1) + ((b >> 5) & 1) + ((b >> 6) & 1) + ((b >> 7) & 1)
}

/// number of set bits of an octet string
pub open spec fn weight(x: Seq<u8>) -> int
    decreases x.len(),
{
    if x.len() == 0 { 0 } else { weight(x.drop_last()) + popcount8(x.last()) }
}

/// the number of set bits is odd (xor of the octet parities)
pub open spec fn weight_odd(x: Seq<u8>) -> bool
    decreases x.len(),
{
    if x.len() == 0 { false } else { weight_odd(x.drop_last()) != parity8(x.last()) }
}

pub proof fn lemma_parity8_is_popcount_odd(b: u8)
    ensures
        parity8(b) == (popcount8(b) % 2 == 1),
        0 <= popcount8(b) <= 8,
{
    let x0 = b & 1;
    let x1 = (b >> 1) & 1;
    let x2 = (b >> 2) & 1;
    let x3 = (b >> 3) & 1;
    let x4 = (b >> 4) & 1;
    let x5 = (b >> 5) & 1;
    let x6 = (b >> 6) & 1;
    let x7 = (b >> 7) & 1;
    assert(x0 <= 1 && x1 <= 1 && x2 <= 1 && x3 <= 1 && x4 <= 1 && x5 <= 1 && x6 <= 1 && x7 <= 1) by (bit_vector)
        requires x0 == b & 1, x1 == (b >> 1) & 1, x2 == (b >> 2) & 1, x3 == (b >> 3) & 1,
                 x4 == (b >> 4) & 1, x5 == (b >> 5) & 1, x6 == (b >> 6) & 1, x7 == (b >> 7) & 1;
    let p = (b ^ (b >> 1) ^ (b >> 2) ^ (b >> 3) ^ (b >> 4) ^ (b >> 5) ^ (b >> 6) ^ (b >> 7)) & 1;
    assert(p == x0 ^ x1 ^ x2 ^ x3 ^ x4 ^ x5 ^ x6 ^ x7) by (bit_vector)
        requires x0 == b & 1, x1 == (b >> 1) & 1, x2 == (b >> 2) & 1, x3 == (b >> 3) & 1,
                 x4 == (b >> 4) & 1, x5 == (b >> 5) & 1, x6 == (b >> 6) & 1, x7 == (b >> 7) & 1,
                 p == (b ^ (b >> 1) ^ (b >> 2) ^ (b >> 3) ^ (b >> 4) ^ (b >> 5) ^ (b >> 6) ^ (b >> 7)) & 1;
    // xor of 0/1 values, one at a time
    let y1 = x0 ^ x1;
    let y2 = y1 ^ x2;
    let y3 = y2 ^ x3;
    let y4 = y3 ^ x4;
    let y5 = y4 ^ x5;
    let y6 = y5 ^ x6;
    let y7 = y6 ^ x7;
    lemma_xor01(x0, x1);
    lemma_xor01(y1, x2);
    lemma_xor01(y2, x3);
    lemma_xor01(y3, x4);
    lemma_xor01(y4, x5);
    lemma_xor01(y5, x6);
    lemma_xor01(y6, x7);
    assert(p == y7);
}

pub proof fn lemma_xor01(a: u8, b: u8)
    requires
        a <= 1,
        b <= 1,
    ensures
        a ^ b <= 1,
        (a ^ b) as int == (if a == b { 0int } else { 1int }),
{
    assert(a <= 1 && b <= 1 ==> (a ^ b) == (if a == b { 0u8 } else { 1u8 })) by (bit_vector);
}

pub proof fn lemma_weight_odd_is_odd_weight(x: Seq<u8>)
    ensures
        weight(x) >= 0,
        weight_odd(x) == (weight(x) % 2 == 1),
    decreases x.len(),
{
    if x.len() > 0 {
        lemma_weight_odd_is_odd_weight(x.drop_last());
        lemma_parity8_is_popcount_odd(x.last());
    }
}

/// the generator polynomial has an even number of terms (it is divisible by x + 1): a bit step preserves parity
pub proof fn lemma_parity_bit_step(c: u16)
    ensures
        parity16(bit_step(c)) == parity16(c),
{
    let n = bit_step(c);
    assert(((n ^ (n >> 1) ^ (n >> 2) ^ (n >> 3) ^ (n >> 4) ^ (n >> 5) ^ (n >> 6) ^ (n >> 7)
       ^ (n >> 8) ^ (n >> 9) ^ (n >> 10) ^ (n >> 11) ^ (n >> 12) ^ (n >> 13) ^ (n >> 14) ^ (n >> 15)) & 1 == 1)
       == ((c ^ (c >> 1) ^ (c >> 2) ^ (c >> 3) ^ (c >> 4) ^ (c >> 5) ^ (c >> 6) ^ (c >> 7)
       ^ (c >> 8) ^ (c >> 9) ^ (c >> 10) ^ (c >> 11) ^ (c >> 12) ^ (c >> 13) ^ (c >> 14) ^ (c >> 15)) & 1 == 1)) by (bit_vector)
        requires n == (if c & 0x8000 > 0 { (c << 1) ^ 0x1021 } else { c << 1 });
}

pub proof fn lemma_parity_bit_steps(c: u16, n: nat)
    ensures
        parity16(bit_steps(c, n)) == parity16(c),
    decreases n,
{
    if n > 0 {
        lemma_parity_bit_steps(c, (n - 1) as nat);
        lemma_parity_bit_step(bit_steps(c, (n - 1) as nat));
    }
}

pub proof fn lemma_parity_xor(a: u16, b: u16)
    ensures
        parity16(a ^ b) == (parity16(a) != parity16(b)),
{
    let c = a ^ b;
    assert(((c ^ (c >> 1) ^ (c >> 2) ^ (c >> 3) ^ (c >> 4) ^ (c >> 5) ^ (c >> 6) ^ (c >> 7)
       ^ (c >> 8) ^ (c >> 9) ^ (c >> 10) ^ (c >> 11) ^ (c >> 12) ^ (c >> 13) ^ (c >> 14) ^ (c >> 15)) & 1 == 1)
       == (((a ^ (a >> 1) ^ (a >> 2) ^ (a >> 3) ^ (a >> 4) ^ (a >> 5) ^ (a >> 6) ^ (a >> 7)
       ^ (a >> 8) ^ (a >> 9) ^ (a >> 10) ^ (a >> 11) ^ (a >> 12) ^ (a >> 13) ^ (a >> 14) ^ (a >> 15)) & 1 == 1)
       != ((b ^ (b >> 1) ^ (b >> 2) ^ (b >> 3) ^ (b >> 4) ^ (b >> 5) ^ (b >> 6) ^ (b >> 7)
       ^ (b >> 8) ^ (b >> 9) ^ (b >> 10) ^ (b >> 11) ^ (b >> 12) ^ (b >> 13) ^ (b >> 14) ^ (b >> 15)) & 1 == 1))) by (bit_vector)
        requires c == a ^ b;
}

pub proof fn lemma_parity_octet(b: u8)
    ensures
        parity16(((b as u16) & 0x00FF) << 8) == parity8(b),
{
    let c = ((b as u16) & 0x00FF) << 8;
    assert(((c ^ (c >> 1) ^ (c >> 2) ^ (c >> 3) ^ (c >> 4) ^ (c >> 5) ^ (c >> 6) ^ (c >> 7)
       ^ (c >> 8) ^ (c >> 9) ^ (c >> 10) ^ (c >> 11) ^ (c >> 12) ^ (c >> 13) ^ (c >> 14) ^ (c >> 15)) & 1 == 1)
       == ((b ^ (b >> 1) ^ (b >> 2) ^ (b >> 3) ^ (b >> 4) ^ (b >> 5) ^ (b >> 6) ^ (b >> 7)) & 1 == 1)) by (bit_vector)
        requires c == ((b as u16) & 0x00FF) << 8;
}

pub proof fn lemma_parity_step8(c: u16, b: u8)
    ensures
        parity16(step8(c, b as u16)) == (parity16(c) != parity8(b)),
{
    let x = ((b as u16) & 0x00FF) << 8;
    lemma_parity_bit_steps(c ^ x, 8);
    lemma_parity_xor(c, x);
    lemma_parity_octet(b);
}

pub proof fn lemma_parity_crc(init: u16, x: Seq<u8>)
    ensures
        parity16(crc_from(init, x)) == (parity16(init) != weight_odd(x)),
    decreases x.len(),
{
    if x.len() > 0 {
        lemma_parity_crc(init, x.drop_last());
        lemma_parity_step8(crc_from(init, x.drop_last()), x.last());
    }
}

/// Odd-weight theorem: an error string with an odd number of set bits is never a codeword
pub proof fn lemma_odd_weight_nonzero(x: Seq<u8>)
    requires
        weight_odd(x),
    ensures
        crc_from(0, x) != 0,
{
    lemma_parity_crc(0, x);
    assert(!((0u16 ^ (0u16 >> 1) ^ (0u16 >> 2) ^ (0u16 >> 3) ^ (0u16 >> 4) ^ (0u16 >> 5) ^ (0u16 >> 6) ^ (0u16 >> 7)
       ^ (0u16 >> 8) ^ (0u16 >> 9) ^ (0u16 >> 10) ^ (0u16 >> 11) ^ (0u16 >> 12) ^ (0u16 >> 13) ^ (0u16 >> 14) ^ (0u16 >> 15)) & 1 == 1)) by (bit_vector);
}

// ---------------------------------------------------------------------------------------------------------------
// 9. detection theorem
// ---------------------------------------------------------------------------------------------------------------

pub proof fn theorem_crc_detects(m: Seq<u8>, e: Seq<u8>, ec: u16)
    requires
        m.len() == e.len(),
        is_burst(e + seq![(ec >> 8) as u8, (ec & 0xff) as u8]) || weight_odd(e + seq![(ec >> 8) as u8, (ec & 0xff) as u8]),
    ensures
        crc_from(0xffff, xor_seq(m, e)) != crc_from(0xffff, m) ^ ec,
{
    let x = e + seq![(ec >> 8) as u8, (ec & 0xff) as u8];
    lemma_accept_iff_error_is_codeword(m, e, ec);
    if is_burst(x) {
        lemma_burst_nonzero(x);
    } else {
        lemma_odd_weight_nonzero(x);
    }
}

// ---------------------------------------------------------------------------------------------------------------
// 9b. corollaries: single-bit errors, double-bit errors less than 16 bit positions apart
// ---------------------------------------------------------------------------------------------------------------

/// octet `t` of a string whose only set bit is bit `j` (0 = most significant, first transmitted) of octet `i`
pub open spec fn unit_at(t: int, i: int, j: u8) -> u8 {
    if t == i { 0x80u8 >> j } else { 0u8 }
}

/// exactly one bit set: bit position 8*i + j in transmission order
pub open spec fn single_bit_error(x: Seq<u8>, i: int, j: u8) -> bool {
    0 <= i < x.len() && j < 8 && forall|t: int| 0 <= t < x.len() ==> #[trigger] x[t] == unit_at(t, i, j)
}

/// exactly two bits set: bit positions 8*i1 + j1 < 8*i2 + j2 in transmission order
pub open spec fn double_bit_error(x: Seq<u8>, i1: int, j1: u8, i2: int, j2: u8) -> bool {
    0 <= i1 <= i2 < x.len() && j1 < 8 && j2 < 8 && 8 * i1 + j1 < 8 * i2 + j2
    && forall|t: int| 0 <= t < x.len() ==> #[trigger] x[t] == unit_at(t, i1, j1) | unit_at(t, i2, j2)
}

pub proof fn lemma_bit_windows(j1: u8, j2: u8)
    requires
        j1 < 8,
        j2 < 8,
    ensures
        burst16(window24(0, (0x80u8 >> j1) | (0x80u8 >> j2), 0)),
        burst16(window24(0, 0, (0x80u8 >> j1) | (0x80u8 >> j2))),
        burst16(window24(0, 0x80u8 >> j1, 0x80u8 >> j2)),
        j2 < j1 ==> burst16(window24(0x80u8 >> j1, 0, 0x80u8 >> j2)),
        burst16(window24(0, 0x80u8 >> j1, 0)),
        burst16(window24(0, 0, 0x80u8 >> j1)),
{
    assert(j1 < 8 && j2 < 8 ==> (({
        let w = ((0u8 as u32) << 16) | ((((0x80u8 >> j1) | (0x80u8 >> j2)) as u32) << 8) | (0u8 as u32);
        w != 0 && (w & !(0xFFFFu32 << 0u32) & 0xFFFFFF == 0 || w & !(0xFFFFu32 << 1u32) & 0xFFFFFF == 0 || w & !(0xFFFFu32 << 2u32) & 0xFFFFFF == 0 || w & !(0xFFFFu32 << 3u32) & 0xFFFFFF == 0 || w & !(0xFFFFu32 << 4u32) & 0xFFFFFF == 0 || w & !(0xFFFFu32 << 5u32) & 0xFFFFFF == 0 || w & !(0xFFFFu32 << 6u32) & 0xFFFFFF == 0 || w & !(0xFFFFu32 << 7u32) & 0xFFFFFF == 0 || w & !(0xFFFFu32 << 8u32) & 0xFFFFFF == 0)
    }))) by (bit_vector);
    assert(j1 < 8 && j2 < 8 ==> (({
        let w = ((0u8 as u32) << 16) | ((0u8 as u32) << 8) | (((0x80u8 >> j1) | (0x80u8 >> j2)) as u32);
        w != 0 && (w & !(0xFFFFu32 << 0u32) & 0xFFFFFF == 0 || w & !(0xFFFFu32 << 1u32) & 0xFFFFFF == 0 || w & !(0xFFFFu32 << 2u32) & 0xFFFFFF == 0 || w & !(0xFFFFu32 << 3u32) & 0xFFFFFF == 0 || w & !(0xFFFFu32 << 4u32) & 0xFFFFFF == 0 || w & !(0xFFFFu32 << 5u32) & 0xFFFFFF == 0 || w & !(0xFFFFu32 << 6u32) & 0xFFFFFF == 0 || w & !(0xFFFFu32 << 7u32) & 0xFFFFFF == 0 || w & !(0xFFFFu32 << 8u32) & 0xFFFFFF == 0)
    }))) by (bit_vector);
    assert(j1 < 8 && j2 < 8 ==> (({
        let w = ((0u8 as u32) << 16) | (((0x80u8 >> j1) as u32) << 8) | ((0x80u8 >> j2) as u32);
        w != 0 && (w & !(0xFFFFu32 << 0u32) & 0xFFFFFF == 0 || w & !(0xFFFFu32 << 1u32) & 0xFFFFFF == 0 || w & !(0xFFFFu32 << 2u32) & 0xFFFFFF == 0 || w & !(0xFFFFu32 << 3u32) & 0xFFFFFF == 0 || w & !(0xFFFFu32 << 4u32) & 0xFFFFFF == 0 || w & !(0xFFFFu32 << 5u32) & 0xFFFFFF == 0 || w & !(0xFFFFu32 << 6u32) & 0xFFFFFF == 0 || w & !(0xFFFFu32 << 7u32) & 0xFFFFFF == 0 || w & !(0xFFFFu32 << 8u32) & 0xFFFFFF == 0)
    }))) by (bit_vector);
    assert(j1 < 8 && j2 < 8 ==> ((j2 < j1) ==> ({
        let w = (((0x80u8 >> j1) as u32) << 16) | ((0u8 as u32) << 8) | ((0x80u8 >> j2) as u32);
        w != 0 && (w & !(0xFFFFu32 << 0u32) & 0xFFFFFF == 0 || w & !(0xFFFFu32 << 1u32) & 0xFFFFFF == 0 || w & !(0xFFFFu32 << 2u32) & 0xFFFFFF == 0 || w & !(0xFFFFu32 << 3u32) & 0xFFFFFF == 0 || w & !(0xFFFFu32 << 4u32) & 0xFFFFFF == 0 || w & !(0xFFFFu32 << 5u32) & 0xFFFFFF == 0 || w & !(0xFFFFu32 << 6u32) & 0xFFFFFF == 0 || w & !(0xFFFFu32 << 7u32) & 0xFFFFFF == 0 || w & !(0xFFFFu32 << 8u32) & 0xFFFFFF == 0)
    }))) by (bit_vector);
    assert(j1 < 8 && j2 < 8 ==> (({
        let w = ((0u8 as u32) << 16) | (((0x80u8 >> j1) as u32) << 8) | (0u8 as u32);
        w != 0 && (w & !(0xFFFFu32 << 0u32) & 0xFFFFFF == 0 || w & !(0xFFFFu32 << 1u32) & 0xFFFFFF == 0 || w & !(0xFFFFu32 << 2u32) & 0xFFFFFF == 0 || w & !(0xFFFFu32 << 3u32) & 0xFFFFFF == 0 || w & !(0xFFFFu32 << 4u32) & 0xFFFFFF == 0 || w & !(0xFFFFu32 << 5u32) & 0xFFFFFF == 0 || w & !(0xFFFFu32 << 6u32) & 0xFFFFFF == 0 || w & !(0xFFFFu32 << 7u32) & 0xFFFFFF == 0 || w & !(0xFFFFu32 << 8u32) & 0xFFFFFF == 0)
    }))) by (bit_vector);
    assert(j1 < 8 && j2 < 8 ==> (({
        let w = ((0u8 as u32) << 16) | ((0u8 as u32) << 8) | ((0x80u8 >> j1) as u32);
        w != 0 && (w & !(0xFFFFu32 << 0u32) & 0xFFFFFF == 0 || w & !(0xFFFFu32 << 1u32) & 0xFFFFFF == 0 || w & !(0xFFFFu32 << 2u32) & 0xFFFFFF == 0 || w & !(0xFFFFu32 << 3u32) & 0xFFFFFF == 0 || w & !(0xFFFFu32 << 4u32) & 0xFFFFFF == 0 || w & !(0xFFFFu32 << 5u32) & 0xFFFFFF == 0 || w & !(0xFFFFu32 << 6u32) & 0xFFFFFF == 0 || w & !(0xFFFFu32 << 7u32) & 0xFFFFFF == 0 || w & !(0xFFFFu32 << 8u32) & 0xFFFFFF == 0)
    }))) by (bit_vector);
}

pub proof fn lemma_or_zero()
    ensures
        forall|a: u8| #[trigger] (a | 0u8) == a,
        forall|a: u8| #[trigger] (0u8 | a) == a,
{
    assert forall|a: u8| #[trigger] (a | 0u8) == a by {
        assert(a | 0u8 == a) by (bit_vector);
    }
    assert forall|a: u8| #[trigger] (0u8 | a) == a by {
        assert(0u8 | a == a) by (bit_vector);
    }
}

/// a single flipped bit anywhere in an error string of at least two octets is a burst
pub proof fn lemma_single_bit_is_burst(x: Seq<u8>, i: int, j: u8)
    requires
        x.len() >= 2,
        single_bit_error(x, i, j),
    ensures
        is_burst(x),
        crc_from(0, x) != 0,
{
    let n = x.len() as int;
    let f = seq![0u8] + x;
    let v = 0x80u8 >> j;
    lemma_bit_windows(j, j);
    assert forall|t: int| 1 <= t <= n implies f[t] == unit_at(t - 1, i, j) by {
        assert(f[t] == x[t - 1]);
    }
    if i <= n - 2 {
        let p = i as nat;
        let q = (n - 2 - i) as nat;
        assert(f =~= zeros(p) + seq![0u8, v, 0u8] + zeros(q)) by {
            let g = zeros(p) + seq![0u8, v, 0u8] + zeros(q);
            assert(f.len() == g.len());
            assert forall|t: int| 0 <= t < f.len() implies f[t] == g[t] by {
                if t >= 1 { assert(f[t] == unit_at(t - 1, i, j)); }
            }
        }
        assert(burst_at(f, p, 0u8, v, 0u8, q));
    } else {
        let p = (n - 2) as nat;
        assert(f =~= zeros(p) + seq![0u8, 0u8, v] + zeros(0)) by {
            let g = zeros(p) + seq![0u8, 0u8, v] + zeros(0);
            assert(f.len() == g.len());
            assert forall|t: int| 0 <= t < f.len() implies f[t] == g[t] by {
                if t >= 1 { assert(f[t] == unit_at(t - 1, i, j)); }
            }
        }
        assert(burst_at(f, p, 0u8, 0u8, v, 0));
    }
    lemma_burst_nonzero(x);
}

/// two flipped bits less than 16 bit positions apart, in an error string of at least two octets, form a burst
pub proof fn lemma_double_bit_within_16_is_burst(x: Seq<u8>, i1: int, j1: u8, i2: int, j2: u8)
    requires
        x.len() >= 2,
        double_bit_error(x, i1, j1, i2, j2),
        (8 * i2 + j2) - (8 * i1 + j1) < 16,
    ensures
        is_burst(x),
        crc_from(0, x) != 0,
{
    let n = x.len() as int;
    let f = seq![0u8] + x;
    let v1 = 0x80u8 >> j1;
    let v2 = 0x80u8 >> j2;
    lemma_bit_windows(j1, j2);
    lemma_or_zero();
    assert(i2 - i1 <= 2);
    assert forall|t: int| 1 <= t <= n implies f[t] == unit_at(t - 1, i1, j1) | unit_at(t - 1, i2, j2) by {
        assert(f[t] == x[t - 1]);
    }
    if i2 == i1 + 2 {
        assert(j2 < j1);
        let p = (i1 + 1) as nat;
        let q = (n - 3 - i1) as nat;
        let g = zeros(p) + seq![v1, 0u8, v2] + zeros(q);
        assert(f =~= g) by {
            assert(f.len() == g.len());
            assert forall|t: int| 0 <= t < f.len() implies f[t] == g[t] by {
                if t >= 1 { assert(f[t] == unit_at(t - 1, i1, j1) | unit_at(t - 1, i2, j2)); }
            }
        }
        assert(burst_at(f, p, v1, 0u8, v2, q));
    } else if i1 <= n - 2 {
        let p = i1 as nat;
        let q = (n - 2 - i1) as nat;
        let c2 = if i2 == i1 { v1 | v2 } else { v1 };
        let c3 = if i2 == i1 { 0u8 } else { v2 };
        let g = zeros(p) + seq![0u8, c2, c3] + zeros(q);
        assert(f =~= g) by {
            assert(f.len() == g.len());
            assert forall|t: int| 0 <= t < f.len() implies f[t] == g[t] by {
                if t >= 1 { assert(f[t] == unit_at(t - 1, i1, j1) | unit_at(t - 1, i2, j2)); }
            }
        }
        assert(burst_at(f, p, 0u8, c2, c3, q));
    } else {
        let p = (n - 2) as nat;
        let g = zeros(p) + seq![0u8, 0u8, v1 | v2] + zeros(0);
        assert(f =~= g) by {
            assert(f.len() == g.len());
            assert forall|t: int| 0 <= t < f.len() implies f[t] == g[t] by {
                if t >= 1 { assert(f[t] == unit_at(t - 1, i1, j1) | unit_at(t - 1, i2, j2)); }
            }
        }
        assert(burst_at(f, p, 0u8, 0u8, v1 | v2, 0));
    }
    lemma_burst_nonzero(x);
}

/// every single-bit error of the protected PDU (message octets or crc octets) is detected
pub proof fn theorem_single_bit_detected(m: Seq<u8>, e: Seq<u8>, ec: u16, i: int, j: u8)
    requires
        m.len() == e.len(),
        single_bit_error(e + seq![(ec >> 8) as u8, (ec & 0xff) as u8], i, j),
    ensures
        crc_from(0xffff, xor_seq(m, e)) != crc_from(0xffff, m) ^ ec,
{
    let x = e + seq![(ec >> 8) as u8, (ec & 0xff) as u8];
    lemma_single_bit_is_burst(x, i, j);
    theorem_crc_detects(m, e, ec);
}

/// every double-bit error of the protected PDU whose bits are less than 16 positions apart is detected
pub proof fn theorem_double_bit_within_16_detected(m: Seq<u8>, e: Seq<u8>, ec: u16, i1: int, j1: u8, i2: int, j2: u8)
    requires
        m.len() == e.len(),
        double_bit_error(e + seq![(ec >> 8) as u8, (ec & 0xff) as u8], i1, j1, i2, j2),
        (8 * i2 + j2) - (8 * i1 + j1) < 16,
    ensures
        crc_from(0xffff, xor_seq(m, e)) != crc_from(0xffff, m) ^ ec,
{
    let x = e + seq![(ec >> 8) as u8, (ec & 0xff) as u8];
    lemma_double_bit_within_16_is_burst(x, i1, j1, i2, j2);
    theorem_crc_detects(m, e, ec);
}
// ---------------------------------------------------------------------------------------------------------------
// 10. double-bit errors at any distance: the order of x modulo the generator polynomial is 32767
// ---------------------------------------------------------------------------------------------------------------

pub proof fn lemma_bit_steps_shift(c: u16, n: nat)
    ensures
        bit_steps(bit_step(c), n) == bit_step(bit_steps(c, n)),
    decreases n,
{
    if n > 0 {
        lemma_bit_steps_shift(c, (n - 1) as nat);
    }
}

pub proof fn lemma_bit_steps_add(c: u16, a: nat, b: nat)
    ensures
        bit_steps(bit_steps(c, a), b) == bit_steps(c, a + b),
    decreases b,
{
    if b > 0 {
        lemma_bit_steps_add(c, a, (b - 1) as nat);
        assert(bit_steps(c, a + b) == bit_step(bit_steps(c, (a + b - 1) as nat)));
    }
}

/// accumulator form of `bit_steps` (evaluates in linear time under `by (compute)`)
pub open spec fn bit_steps_acc(c: u16, n: nat) -> u16
    decreases n,
{
    if n == 0 { c } else { bit_steps_acc(bit_step(c), (n - 1) as nat) }
}

pub proof fn lemma_bit_steps_acc(c: u16, n: nat)
    ensures
        bit_steps_acc(c, n) == bit_steps(c, n),
    decreases n,
{
    if n > 0 {
        lemma_bit_steps_acc(bit_step(c), (n - 1) as nat);
        lemma_bit_steps_shift(c, (n - 1) as nat);
    }
}

/// executable checker: none of c, T c, .., T^(n-1) c equals 1   (T = bit_step)
pub open spec fn no_one(c: u16, n: nat) -> bool
    decreases n,
{
    if n == 0 { true } else { c != 1 && no_one(bit_step(c), (n - 1) as nat) }
}

/// the same over k blocks of 256 steps followed by `tail` steps (keeps the evaluation depth small)
pub open spec fn no_one_blocks(c: u16, k: nat, tail: nat) -> bool
    decreases k,
{
    if k == 0 { no_one(c, tail) } else { no_one(c, 256) && no_one_blocks(bit_steps_acc(c, 256), (k - 1) as nat, tail) }
}

/// T^(256 k + tail) c, evaluated blockwise
pub open spec fn bit_steps_blocks(c: u16, k: nat, tail: nat) -> u16
    decreases k,
{
    if k == 0 { bit_steps_acc(c, tail) } else { bit_steps_blocks(bit_steps_acc(c, 256), (k - 1) as nat, tail) }
}

pub proof fn lemma_no_one(c: u16, n: nat, d: nat)
    requires
        no_one(c, n),
        d < n,
    ensures
        bit_steps(c, d) != 1,
    decreases n,
{
    if d > 0 {
        lemma_no_one(bit_step(c), (n - 1) as nat, (d - 1) as nat);
        lemma_bit_steps_shift(c, (d - 1) as nat);
    }
}

pub proof fn lemma_no_one_blocks(c: u16, k: nat, tail: nat, d: nat)
    requires
        no_one_blocks(c, k, tail),
        d < 256 * k + tail,
    ensures
        bit_steps(c, d) != 1,
    decreases k,
{
    if k == 0 {
        lemma_no_one(c, tail, d);
    } else if d < 256 {
        lemma_no_one(c, 256, d);
    } else {
        lemma_bit_steps_acc(c, 256);
        lemma_no_one_blocks(bit_steps(c, 256), (k - 1) as nat, tail, (d - 256) as nat);
        lemma_bit_steps_add(c, 256, (d - 256) as nat);
    }
}

pub proof fn lemma_bit_steps_blocks(c: u16, k: nat, tail: nat)
    ensures
        bit_steps_blocks(c, k, tail) == bit_steps(c, 256 * k + tail),
    decreases k,
{
    if k == 0 {
        lemma_bit_steps_acc(c, tail);
    } else {
        lemma_bit_steps_acc(c, 256);
        lemma_bit_steps_blocks(bit_steps(c, 256), (k - 1) as nat, tail);
        lemma_bit_steps_add(c, 256, (256 * (k - 1) + tail) as nat);
    }
}

/// x^d mod g != 1 for 0 < d < 32767, and x^32767 mod g == 1   (x^d mod g is bit_steps(1, d))
pub proof fn lemma_order_of_x()
    ensures
        forall|d: nat| 1 <= d < 32767 ==> #[trigger] bit_steps(1, d) != 1,
        bit_steps(1, 32767) == 1,
{
    // T 1 == 2; check T^0 2 .. T^32765 2, that is T^1 1 .. T^32766 1   (32766 == 127 * 256 + 254)
    assert(no_one_blocks(2, 127, 254)) by (compute);
    assert(bit_steps_blocks(2, 127, 254) == 1) by (compute);
    assert(bit_steps(1, 1) == bit_step(bit_steps(1, 0)));
    assert(bit_step(1) == 2) by {
        assert(!(1u16 & 0x8000 > 0)) by (bit_vector);
        assert(1u16 << 1 == 2) by (bit_vector);
    }
    assert forall|d: nat| 1 <= d < 32767 implies #[trigger] bit_steps(1, d) != 1 by {
        lemma_no_one_blocks(2, 127, 254, (d - 1) as nat);
        lemma_bit_steps_add(1, 1, (d - 1) as nat);
    }
    lemma_bit_steps_blocks(2, 127, 254);
    lemma_bit_steps_add(1, 1, 32766);
}

/// x^d mod g == 1 exactly for the multiples of 32767
pub proof fn lemma_x_pow_is_one_iff(d: nat)
    ensures
        bit_steps(1, d) == 1 <==> d % 32767 == 0,
    decreases d,
{
    lemma_order_of_x();
    if d >= 32767 {
        lemma_x_pow_is_one_iff((d - 32767) as nat);
        lemma_bit_steps_add(1, 32767, (d - 32767) as nat);
    } else if d == 0 {
    } else {
    }
}

pub proof fn lemma_crc_zeros_is_bit_steps(c: u16, k: nat)
    ensures
        crc_from(c, zeros(k)) == bit_steps(c, 8 * k),
    decreases k,
{
    if k > 0 {
        lemma_crc_zeros_is_bit_steps(c, (k - 1) as nat);
        lemma_zeros_drop_last(k);
        let prev = crc_from(c, zeros((k - 1) as nat));
        assert(prev ^ ((0u16 & 0x00FF) << 8) == prev) by (bit_vector);
        lemma_bit_steps_add(c, (8 * (k - 1)) as nat, 8);
    }
}

/// x^k mod g is the monomial itself while k < 16
pub proof fn lemma_x_pow_small(k: nat)
    requires
        k <= 15,
    ensures
        bit_steps(1, k) == 1u16 << (k as u16),
    decreases k,
{
    if k == 0 {
        assert(1u16 << 0u16 == 1) by (bit_vector);
    } else {
        lemma_x_pow_small((k - 1) as nat);
        let kk = k as u16;
        let prev = 1u16 << ((kk - 1) as u16);
        assert(!(prev & 0x8000 > 0) && prev << 1 == 1u16 << kk) by (bit_vector)
            requires 1 <= kk <= 15, prev == 1u16 << ((kk - 1) as u16);
    }
}

pub proof fn lemma_step8_unit(j: u8)
    requires
        j < 8,
    ensures
        step8(0, (0x80u8 >> j) as u16) == bit_steps(1, (23 - j) as nat),
{
    let v = 0x80u8 >> j;
    let k = (15 - j) as u16;
    assert(0u16 ^ (((v as u16) & 0x00FF) << 8) == 1u16 << k) by (bit_vector)
        requires j < 8, v == 0x80u8 >> j, k == (15 - j) as u16;
    lemma_x_pow_small((15 - j) as nat);
    lemma_bit_steps_add(1, (15 - j) as nat, 8);
}

/// the string of `n` octets whose only set bit is bit `j` of octet `i`
pub open spec fn unit_string(n: nat, i: int, j: u8) -> Seq<u8> {
    Seq::new(n, |t: int| unit_at(t, i, j))
}

/// zero-initialised crc of a single-bit string: x^(16 + number of bits after the set one) mod g
pub proof fn lemma_crc_unit_string(n: nat, i: int, j: u8)
    requires
        0 <= i < n,
        j < 8,
    ensures
        crc_from(0, unit_string(n, i, j)) == bit_steps(1, (8 * n + 15 - (8 * i + j)) as nat),
{
    let v = 0x80u8 >> j;
    let p = i as nat;
    let q = (n - 1 - i) as nat;
    let u = unit_string(n, i, j);
    assert(u =~= zeros(p) + seq![v] + zeros(q));
    lemma_crc_concat(0, zeros(p) + seq![v], zeros(q));
    lemma_crc_concat(0, zeros(p), seq![v]);
    lemma_crc_zero_zeros(p);
    lemma_crc_one(0, v);
    lemma_step8_unit(j);
    lemma_crc_zeros_is_bit_steps(step8(0, v as u16), q);
    lemma_bit_steps_add(1, (23 - j) as nat, 8 * q);
}

/// Double-bit theorem: an error string with exactly two set bits, d bit positions apart, is a codeword
/// exactly when d is a multiple of 32767; in particular it is never a codeword when d < 32767.
pub proof fn lemma_double_bit_any_distance(x: Seq<u8>, i1: int, j1: u8, i2: int, j2: u8)
    requires
        double_bit_error(x, i1, j1, i2, j2),
    ensures
        crc_from(0, x) != 0 <==> ((8 * i2 + j2) - (8 * i1 + j1)) % 32767 != 0,
        (8 * i2 + j2) - (8 * i1 + j1) < 32767 ==> crc_from(0, x) != 0,
{
    let n = x.len();
    let u1 = unit_string(n, i1, j1);
    let u2 = unit_string(n, i2, j2);
    let v1 = 0x80u8 >> j1;
    let v2 = 0x80u8 >> j2;
    assert(0u8 | 0u8 == 0u8 ^ 0u8) by (bit_vector);
    assert(v1 | 0u8 == v1 ^ 0u8) by (bit_vector);
    assert(0u8 | v2 == 0u8 ^ v2) by (bit_vector);
    assert(j1 != j2 ==> v1 | v2 == v1 ^ v2) by (bit_vector)
        requires j1 < 8, j2 < 8, v1 == 0x80u8 >> j1, v2 == 0x80u8 >> j2;
    assert(x =~= xor_seq(u1, u2)) by {
        assert forall|t: int| 0 <= t < n implies x[t] == xor_seq(u1, u2)[t] by {
            assert(x[t] == unit_at(t, i1, j1) | unit_at(t, i2, j2));
        }
    }
    assert(0u16 ^ 0u16 == 0) by (bit_vector);
    lemma_crc_linear(0, 0, u1, u2);
    lemma_crc_unit_string(n, i1, j1);
    lemma_crc_unit_string(n, i2, j2);
    let d = ((8 * i2 + j2) - (8 * i1 + j1)) as nat;
    let a = (8 * n + 15 - (8 * i2 + j2)) as nat;
    let xd = bit_steps(1, d);
    lemma_bit_steps_add(1, d, a);
    assert(crc_from(0, x) == bit_steps(xd, a) ^ bit_steps(1, a));
    lemma_bit_steps_linear(xd, 1, a);
    lemma_bit_steps_nonzero(xd ^ 1, a);
    assert(xd ^ 1 == 0 <==> xd == 1) by (bit_vector);
    lemma_x_pow_is_one_iff(d);
}

/// every double-bit error of the protected PDU whose bits are less than 32767 positions apart is detected
/// (a PDU of at most 4095 octets including the crc cannot contain two bits further apart)
pub proof fn theorem_double_bit_detected(m: Seq<u8>, e: Seq<u8>, ec: u16, i1: int, j1: u8, i2: int, j2: u8)
    requires
        m.len() == e.len(),
        double_bit_error(e + seq![(ec >> 8) as u8, (ec & 0xff) as u8], i1, j1, i2, j2),
        (8 * i2 + j2) - (8 * i1 + j1) < 32767,
    ensures
        crc_from(0xffff, xor_seq(m, e)) != crc_from(0xffff, m) ^ ec,
{
    let x = e + seq![(ec >> 8) as u8, (ec & 0xff) as u8];
    lemma_double_bit_any_distance(x, i1, j1, i2, j2);
    lemma_accept_iff_error_is_codeword(m, e, ec);
}

/// tightness: two flipped bits exactly 32767 positions apart are NOT detected
pub proof fn theorem_double_bit_at_32767_undetected(m: Seq<u8>, e: Seq<u8>, ec: u16, i1: int, j1: u8, i2: int, j2: u8)
    requires
        m.len() == e.len(),
        double_bit_error(e + seq![(ec >> 8) as u8, (ec & 0xff) as u8], i1, j1, i2, j2),
        (8 * i2 + j2) - (8 * i1 + j1) == 32767,
    ensures
        crc_from(0xffff, xor_seq(m, e)) == crc_from(0xffff, m) ^ ec,
{
    let x = e + seq![(ec >> 8) as u8, (ec & 0xff) as u8];
    lemma_double_bit_any_distance(x, i1, j1, i2, j2);
    lemma_accept_iff_error_is_codeword(m, e, ec);
}
