// Specification vocabulary of the sender unit (hand-written; no /repo code).

pub uninterp spec fn name_nonempty(m: Metadata) -> bool;

impl<T: FileStore> SendTransaction<T> {
    pub open spec fn timers_ok(&self) -> bool {
        self.timer.ack.cfg_ok() && self.timer.nak.cfg_ok() && self.timer.inactivity.cfg_ok()
    }

    /// what send_pdu would emit next is metadata, file data or EOF (dispatch order of send_pdu: prompt first, then per sub-state)
    pub open spec fn next_is_md_data_or_eof(&self) -> bool {
        self.prompt.is_none() && match self.send_state {
            SendState::SendMetadata => true,
            SendState::SendData => true,
            SendState::SendEof => self.naks@.len() > 0 || (self.eof.is_some() && self.eof.unwrap().1),
            SendState::Cancelled => self.eof.is_some() && self.eof.unwrap().1,
            SendState::Finished => false,
        }
    }

    /// what has_pdu_to_send() answers for a transaction that is not suspended
    pub open spec fn wants_to_send(&self) -> bool {
        self.prompt.is_some() || match self.send_state {
            SendState::SendMetadata => true,
            SendState::SendData => true,
            SendState::SendEof => self.naks@.len() > 0 || (self.eof.is_some() && self.eof.unwrap().1),
            SendState::Cancelled => self.eof.is_some() && self.eof.unwrap().1,
            SendState::Finished => self.ack.is_some(),
        }
    }

    /// C03 "no transaction waits forever": an active transaction always has a PDU to offer to the transport or, in the two waiting
    /// states (the only ones in which until_timeout() looks at the timers), a running timer whose expiry handle_timeout acts upon
    pub open spec fn alive_inv(&self) -> bool {
        // the Finished sub-state exists only to send the ACK(Finished); once that is out the transaction is terminated
        &&& (self.send_state == SendState::Finished ==> (self.ack.is_some() || self.state == TransactionState::Terminated))
        &&& (self.state == TransactionState::Active ==> (self.wants_to_send()
            || ((self.send_state == SendState::SendEof || self.send_state == SendState::Cancelled)
                && (!self.timer.ack.paused || !self.timer.inactivity.paused))))
    }

    /// limits never change, and a count that has reached its limit stays there (pausing only counts, never clears)
    pub open spec fn limits_sticky(&self, o: Self) -> bool {
        &&& self.timer.ack@.max == o.timer.ack@.max && self.timer.inactivity@.max == o.timer.inactivity@.max
        &&& (o.timer.ack@.count == o.timer.ack@.max ==> self.timer.ack@.count == self.timer.ack@.max)
        &&& (o.timer.inactivity@.count == o.timer.inactivity@.max ==> self.timer.inactivity@.count == self.timer.inactivity@.max)
        &&& (o.timer.ack@.occurred ==> self.timer.ack@.occurred)
    }

    pub open spec fn same_except_eof(&self, o: Self) -> bool {
        &&& self.state == o.state && self.send_state == o.send_state && self.status == o.status
        &&& self.timer == o.timer && self.condition == o.condition && self.config == o.config
        &&& self.delivery_code == o.delivery_code && self.file_status == o.file_status
        &&& self.ack == o.ack && self.prompt == o.prompt && self.naks == o.naks
        &&& self.sent_file_size == o.sent_file_size && self.received_file_size == o.received_file_size
        &&& self.metadata == o.metadata && self.send_eof_indication == o.send_eof_indication && self.header == o.header
    }

    pub open spec fn same_except_state_timer(&self, o: Self) -> bool {
        &&& self.send_state == o.send_state && self.status == o.status
        &&& self.condition == o.condition && self.config == o.config
        &&& self.delivery_code == o.delivery_code && self.file_status == o.file_status
        &&& self.ack == o.ack && self.prompt == o.prompt && self.naks == o.naks && self.eof == o.eof
        &&& self.sent_file_size == o.sent_file_size && self.received_file_size == o.received_file_size
        &&& self.metadata == o.metadata && self.send_eof_indication == o.send_eof_indication && self.header == o.header
        &&& self.file_handle == o.file_handle && self.checksum == o.checksum
    }
}

/// C20: an indication that carries a progress figure carries the sender's progress
pub open spec fn indication_progress_ok(i: Indication, progress: u64) -> bool {
    match i {
        Indication::Fault(f) => f.progress == progress,
        Indication::Abandon(f) => f.progress == progress,
        Indication::Resumed(r) => r.progress == progress,
        _ => true,
    }
}

/// C18 / C04: a Finished (or fault/abandon) indication carries the outcome the transaction holds
pub open spec fn indication_outcome_ok(i: Indication, condition: Condition, delivery_code: DeliveryCode, file_status: FileStatusCode) -> bool {
    match i {
        Indication::Finished(f) => f.delivery_code == delivery_code && f.file_status == file_status && f.report.condition == condition,
        _ => true,
    }
}

pub open spec fn pdu_finished(p: PDU) -> Option<Finished> {
    match p.payload {
        PDUPayload::Directive(Operations::Finished(f)) => Some(f),
        _ => None,
    }
}

/// the action configured for a condition (Cancel when none is configured)
pub open spec fn configured_action(c: TransactionConfig, cond: Condition) -> FaultHandlerAction {
    if c.fault_handler_override@.contains_key(cond) { c.fault_handler_override@[cond] } else { FaultHandlerAction::Cancel }
}

// ASSUMED: #[derive(Hash, PartialEq, Eq)] on the field-less enum Condition is a lawful HashMap key
pub axiom fn axiom_condition_key_model()
    ensures vstd::std_specs::hash::obeys_key_model::<Condition>(),
;

// ---- abstract file (ASSUMED POSIX semantics): content and cursor
pub uninterp spec fn file_bytes(f: File) -> Seq<u8>;
pub uninterp spec fn file_pos(f: File) -> int;

/// std: Seek::stream_position "Returns the current seek position from the start of the stream."
#[verifier::external_body]
pub fn vx_stream_position(h: &mut File) -> (r: TransactionResult<u64>)
    ensures
        file_bytes(*final(h)) == file_bytes(*old(h)),
        file_pos(*final(h)) == file_pos(*old(h)),
        r matches Ok(p) ==> p == file_pos(*old(h)),
{
    unimplemented!()
}

/// std: Seek::seek(SeekFrom::Start(o)) "Sets the offset to the provided number of bytes."
#[verifier::external_body]
pub fn vx_seek_start(h: &mut File, offset: u64) -> (r: TransactionResult<u64>)
    ensures
        file_bytes(*final(h)) == file_bytes(*old(h)),
        r is Ok ==> file_pos(*final(h)) == offset,
{
    unimplemented!()
}

/// the at most `n` bytes of `b` from offset `off` on (nothing beyond the end of the file)
pub open spec fn file_slice(b: Seq<u8>, off: int, n: int) -> Seq<u8> {
    b.subrange(if off <= b.len() { off } else { b.len() as int }, if off + n <= b.len() { off + n } else { b.len() as int })
}

/// std: Read::take(n).read_to_end(buf) on a file: reads until n bytes or end of file, from the cursor, and advances it
#[verifier::external_body]
pub fn vx_read_up_to(h: &mut File, n: u16) -> (r: TransactionResult<Vec<u8>>)
    ensures
        file_bytes(*final(h)) == file_bytes(*old(h)),
        r matches Ok(d) ==> {
            &&& d@.len() <= n
            &&& file_pos(*old(h)) + d@.len() <= u64::MAX
            &&& file_pos(*final(h)) == file_pos(*old(h)) + d@.len()
            &&& d@ == file_slice(file_bytes(*old(h)), file_pos(*old(h)), n as int)
        },
{
    unimplemented!()
}

// (declared after the impl block in source order; Verus does not care)
pub open spec fn emit_start<T: FileStore>(t: SendTransaction<T>, offset: Option<u64>) -> int {
    match offset { Some(o) => o as int, None => t.cursor() }
}
pub open spec fn emit_len<T: FileStore>(t: SendTransaction<T>, length: Option<u16>) -> int {
    match length { Some(l) => l as int, None => t.config.file_size_segment as int }
}

/// content of the source file named in the metadata as the filestore will hand it out when the sender opens it
pub uninterp spec fn unopened_bytes(m: Metadata) -> Seq<u8>;

impl<T: FileStore> SendTransaction<T> {
    /// read position in the source file (a file not opened yet will be opened at position 0)
    pub open spec fn cursor(&self) -> int {
        if self.file_handle is Some { file_pos(self.file_handle.unwrap()) } else { 0 }
    }
    /// the bytes of the source file
    pub open spec fn src(&self) -> Seq<u8> {
        if self.file_handle is Some { file_bytes(self.file_handle.unwrap()) } else { unopened_bytes(self.metadata) }
    }
    /// neither the source file handle (content, cursor) nor the metadata naming the source file changed
    pub open spec fn file_untouched(&self, o: Self) -> bool {
        self.file_handle == o.file_handle && self.metadata == o.metadata
    }
    /// the cached checksum, if any, is the checksum of the source file
    pub open spec fn cache_ok(&self) -> bool {
        self.checksum matches Some(c) ==> c == (if name_nonempty(self.metadata) { spec_file_checksum(self.src(), self.metadata.checksum_type) } else { 0 })
    }
    /// C07 first pass: until the EOF is prepared the read position IS the progress figure, i.e. everything below the cursor has been
    /// transmitted once, in order, and nothing above it has been transmitted in the first pass
    pub open spec fn first_pass_inv(&self) -> bool {
        (self.send_state == SendState::SendMetadata || self.send_state == SendState::SendData) ==> self.cursor() == self.sent_file_size
    }
}

// ---- C07 vocabulary
pub open spec fn header_matches_config(h: PDUHeader, c: TransactionConfig) -> bool {
    &&& h.version == U3::One
    &&& h.transmission_mode == c.transmission_mode
    &&& h.crc_flag == c.crc_flag
    &&& h.large_file_flag == c.file_size_flag
    &&& h.segment_metadata_flag == c.segment_metadata_flag
    &&& h.source_entity_id == c.source_entity_id
    &&& h.transaction_sequence_number == c.sequence_number
    &&& h.destination_entity_id == c.destination_entity_id
}

impl<T: FileStore> SendTransaction<T> {
    /// the cached header, if any, carries the configuration's identifiers and flags and points to the receiver
    pub open spec fn header_from_config(&self) -> bool {
        self.header.is_some() ==> (header_matches_config(self.header.unwrap(), self.config) && self.header.unwrap().direction == Direction::ToReceiver)
    }

    /// everything but the open file handle and the progress figure
    pub open spec fn same_except_file_progress(&self, o: Self) -> bool {
        &&& self.state == o.state && self.send_state == o.send_state && self.status == o.status
        &&& self.timer == o.timer && self.condition == o.condition && self.config == o.config
        &&& self.delivery_code == o.delivery_code && self.file_status == o.file_status
        &&& self.ack == o.ack && self.prompt == o.prompt && self.naks == o.naks && self.eof == o.eof
        &&& self.received_file_size == o.received_file_size && self.header == o.header
        &&& self.metadata == o.metadata && self.send_eof_indication == o.send_eof_indication && self.checksum == o.checksum
    }

    pub open spec fn same_except_header(&self, o: Self) -> bool {
        &&& self.state == o.state && self.send_state == o.send_state && self.status == o.status
        &&& self.timer == o.timer && self.condition == o.condition && self.config == o.config
        &&& self.delivery_code == o.delivery_code && self.file_status == o.file_status
        &&& self.ack == o.ack && self.prompt == o.prompt && self.naks == o.naks && self.eof == o.eof
        &&& self.sent_file_size == o.sent_file_size && self.received_file_size == o.received_file_size
        &&& self.metadata == o.metadata && self.send_eof_indication == o.send_eof_indication
        &&& self.file_handle == o.file_handle
        &&& self.checksum == o.checksum
    }
}

impl<T: FileStore> SendTransaction<T> {
    pub open spec fn same_except_ack(&self, o: Self) -> bool {
        &&& self.state == o.state && self.send_state == o.send_state && self.status == o.status
        &&& self.timer == o.timer && self.condition == o.condition && self.config == o.config
        &&& self.prompt == o.prompt && self.naks == o.naks && self.eof == o.eof && self.header == o.header
        &&& self.sent_file_size == o.sent_file_size && self.metadata == o.metadata
        &&& self.file_handle == o.file_handle
        &&& self.delivery_code == o.delivery_code && self.file_status == o.file_status
        &&& self.checksum == o.checksum
    }
}

/// std: File::metadata()?.len() "Returns the size of the file, in bytes"
#[verifier::external_body]
pub fn vx_file_len(h: &mut File) -> (r: TransactionResult<u64>)
    ensures
        file_bytes(*final(h)) == file_bytes(*old(h)),
        file_pos(*final(h)) == file_pos(*old(h)),
        r matches Ok(n) ==> n == file_bytes(*old(h)).len(),
{
    unimplemented!()
}

pub open spec fn pdu_is_ack_eof(p: PDU) -> bool {
    p.payload matches PDUPayload::Directive(Operations::Ack(a)) && a.directive == PDUDirective::EoF
}

/// stands for `TransactionError::UnexpectedPDU(seq, mode, text)` (built with format!/to_owned)
#[verifier::external_body]
pub fn vx_unexpected_pdu() -> TransactionError {
    unimplemented!()
}

impl<T: FileStore> SendTransaction<T> {
    /// stands for the NAK splitter and de-duplication of process_pdu: may change only the NAK queue
    #[verifier::external_body]
    pub fn vx_queue_nak_requests(&mut self, nak: NegativeAcknowledgmentPDU)
        ensures
            final(self).same_except_naks(*old(self)),
    {
        unimplemented!()
    }

    pub open spec fn same_except_naks(&self, o: Self) -> bool {
        &&& self.state == o.state && self.send_state == o.send_state && self.status == o.status
        &&& self.timer == o.timer && self.condition == o.condition && self.config == o.config
        &&& self.delivery_code == o.delivery_code && self.file_status == o.file_status
        &&& self.ack == o.ack && self.prompt == o.prompt && self.eof == o.eof && self.header == o.header
        &&& self.sent_file_size == o.sent_file_size && self.received_file_size == o.received_file_size
        &&& self.metadata == o.metadata && self.send_eof_indication == o.send_eof_indication
        &&& self.file_handle == o.file_handle
        &&& self.checksum == o.checksum
    }
}


/// stands for the iterator chain of send_metadata that turns the filestore requests and user messages into TLV options
#[verifier::external_body]
pub fn vx_metadata_options(m: &Metadata) -> (r: Vec<MetadataTLV>)
{ unimplemented!() }


/// the checksum of a file content under a checksum type (Modular: the CCSDS modular checksum, proved for the accumulator under C14;
/// Null: 0) - uninterpreted here
pub uninterp spec fn spec_file_checksum(bytes: Seq<u8>, t: ChecksumType) -> u32;

/// cfdp_core::filestore::FileChecksum::checksum on the open source file (ASSUMED: reads the whole file, content untouched)
#[verifier::external_body]
pub fn vx_file_checksum(h: &mut File, t: ChecksumType) -> (r: TransactionResult<u32>)
    ensures
        file_bytes(*final(h)) == file_bytes(*old(h)),
        r matches Ok(c) ==> c == spec_file_checksum(file_bytes(*old(h)), t),
{ unimplemented!() }
