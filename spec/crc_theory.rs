// CRC-16/IBM-3740 (CCITT-FALSE): polynomial x^16 + x^12 + x^5 + 1, MSB first, init 0xFFFF, no reflection, no final xor.

pub open spec fn bit_step(c: u16) -> u16 {
    if c & 0x8000 > 0 { (c << 1) ^ 0x1021 } else { c << 1 }
}

pub open spec fn bit_steps(c: u16, n: nat) -> u16
    decreases n,
{
    if n == 0 { c } else { bit_step(bit_steps(c, (n - 1) as nat)) }
}

/// one message octet
pub open spec fn step8(c: u16, b: u16) -> u16 {
    bit_steps(c ^ ((b & 0x00FF) << 8), 8)
}

pub open spec fn crc_from(init: u16, m: Seq<u8>) -> u16
    decreases m.len(),
{
    if m.len() == 0 { init } else { step8(crc_from(init, m.drop_last()), m.last() as u16) }
}

// ASSUMED contract of std: `Iterator::fold` on a slice iterator = left fold over the remaining elements.
// std: "Folds every element into an accumulator by applying an operation, returning the final result."
// Stated for every spec function g that describes the closure: if each call of f returns g(acc, x), the result is the
// left fold of g (vstd's Seq::fold_left) over the elements the iterator still holds.
pub assume_specification<'a, T, B, F> [ <std::slice::Iter<'a, T> as std::iter::Iterator>::fold ] (it: std::slice::Iter<'a, T>, init: B, f: F) -> (r: B)
    where F: FnMut(B, &'a T) -> B,
    requires
        forall|b: B, x: &'a T| call_requires(f, (b, x)),
    ensures
        forall|g: spec_fn(B, &'a T) -> B, s: Seq<&'a T>|
            s =~= it.remaining() && (forall|b: B, x: &'a T, o: B| call_ensures(f, (b, x), o) ==> o == g(b, x))
            ==> r == #[trigger] s.fold_left(init, g),
;

pub open spec fn crc_g<'a>() -> spec_fn(u16, &'a u8) -> u16 {
    |acc: u16, d: &'a u8| step8(acc, *d as u16)
}

pub proof fn lemma_fold_left_is_crc(rem: Seq<&u8>, m: Seq<u8>, init: u16)
    requires
        rem.len() == m.len(),
        forall|i: int| 0 <= i < m.len() ==> *(#[trigger] rem[i]) == m[i],
    ensures
        rem.fold_left(init, crc_g()) == crc_from(init, m),
    decreases m.len(),
{
    if m.len() > 0 {
        lemma_fold_left_is_crc(rem.drop_last(), m.drop_last(), init);
        assert(*rem.last() == m.last());
    }
}
