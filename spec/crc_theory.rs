// CRC-16/IBM-3740 (CCITT-FALSE): polynomial x^16 + x^12 + x^5 + 1, MSB first, init 0xFFFF, no reflection, no final xor.

pub open spec fn bit_step(c: u16) -> u16 {
    if c & 0x8000 > 0 { (c << 1) ^ 0x1021 } else { c << 1 }
}

pub open spec fn bit_steps(c: u16, n: nat) -> u16
    decreases n,
{
    if n == 0 { c } else { bit_step(bit_steps(c, (n - 1) as nat)) }
}

/// one message octet
pub open spec fn step8(c: u16, b: u16) -> u16 {
    bit_steps(c ^ ((b & 0x00FF) << 8), 8)
}

pub open spec fn crc_from(init: u16, m: Seq<u8>) -> u16
    decreases m.len(),
{
    if m.len() == 0 { init } else { step8(crc_from(init, m.drop_last()), m.last() as u16) }
}

pub open spec fn crc_g<'a>() -> spec_fn(u16, &'a u8) -> u16 {
    |acc: u16, d: &'a u8| step8(acc, *d as u16)
}

pub proof fn lemma_fold_left_is_crc(rem: Seq<&u8>, m: Seq<u8>, init: u16)
    requires
        rem.len() == m.len(),
        forall|i: int| 0 <= i < m.len() ==> *(#[trigger] rem[i]) == m[i],
    ensures
        rem.fold_left(init, crc_g()) == crc_from(init, m),
    decreases m.len(),
{
    if m.len() > 0 {
        lemma_fold_left_is_crc(rem.drop_last(), m.drop_last(), init);
        assert(*rem.last() == m.last());
    }
}
