// Theory of run lists: abstract view of `Segments` (hand-written proof text; no /repo code here).
//
//   covered(s, b)  : byte b lies in one of the runs        -- the *set* the receiver holds
//   total(s)       : sum of run lengths                     -- equals the set's cardinality when wf (lemma_total_is_cardinality)
//   wf(s)          : every run non-empty, runs strictly separated (sorted, disjoint, NON-adjacent => maximal runs)
//   near(s, k)     : wf except that run k may reach into / touch its successors (state inside the coalescing loop)

pub open spec fn inr(x: (u64, u64), b: int) -> bool {
    x.0 <= b < x.1
}

pub open spec fn seglen(x: (u64, u64)) -> int {
    x.1 - x.0
}

pub open spec fn valid(s: Seq<(u64, u64)>) -> bool {
    forall|i: int| 0 <= i < s.len() ==> (#[trigger] s[i]).0 < s[i].1
}

pub open spec fn sep_at(s: Seq<(u64, u64)>, i: int) -> bool {
    s[i].1 < s[i + 1].0
}

pub open spec fn sep(s: Seq<(u64, u64)>) -> bool {
    forall|i: int| 0 <= i < s.len() - 1 ==> #[trigger] sep_at(s, i)
}

pub open spec fn wf(s: Seq<(u64, u64)>) -> bool {
    valid(s) && sep(s)
}

pub open spec fn near(s: Seq<(u64, u64)>, k: int) -> bool {
    &&& valid(s)
    &&& forall|i: int| 0 <= i < s.len() - 1 && i != k ==> #[trigger] sep_at(s, i)
    &&& (0 <= k && k + 1 < s.len() ==> s[k].0 < s[k + 1].0)
}

pub open spec fn covered(s: Seq<(u64, u64)>, b: int) -> bool {
    exists|i: int| 0 <= i < s.len() && #[trigger] inr(s[i], b)
}

pub open spec fn total(s: Seq<(u64, u64)>) -> int
    decreases s.len(),
{
    if s.len() == 0 {
        0
    } else {
        total(s.drop_last()) + seglen(s.last())
    }
}

// ---------------------------------------------------------------- order

pub proof fn lemma_sorted(s: Seq<(u64, u64)>, i: int, j: int)
    requires
        wf(s),
        0 <= i < j < s.len(),
    ensures
        s[i].1 < s[j].0,
    decreases j - i,
{
    if j == i + 1 {
        assert(sep_at(s, i));
    } else {
        lemma_sorted(s, i, j - 1);
        assert(sep_at(s, j - 1));
        assert(s[j - 1].0 < s[j - 1].1);
    }
}

pub proof fn lemma_sorted_starts(s: Seq<(u64, u64)>)
    requires
        wf(s),
    ensures
        forall|i: int, j: int| 0 <= i < j < s.len() ==> (#[trigger] s[i]).0 < (#[trigger] s[j]).0,
        forall|i: int, j: int| 0 <= i < j < s.len() ==> (#[trigger] s[i]).1 < (#[trigger] s[j]).0,
{
    assert forall|i: int, j: int| 0 <= i < j < s.len() implies (#[trigger] s[i]).1 < (#[trigger] s[j]).0 by {
        lemma_sorted(s, i, j);
    }
    assert forall|i: int, j: int| 0 <= i < j < s.len() implies (#[trigger] s[i]).0 < (#[trigger] s[j]).0 by {
        lemma_sorted(s, i, j);
        assert(s[i].0 < s[i].1);
    }
}

// ---------------------------------------------------------------- total

pub proof fn lemma_total_push(s: Seq<(u64, u64)>, x: (u64, u64))
    ensures
        total(s.push(x)) == total(s) + seglen(x),
{
    assert(s.push(x).drop_last() =~= s);
}

pub proof fn lemma_total_update(s: Seq<(u64, u64)>, k: int, x: (u64, u64))
    requires
        0 <= k < s.len(),
    ensures
        total(s.update(k, x)) == total(s) - seglen(s[k]) + seglen(x),
    decreases s.len(),
{
    let t = s.update(k, x);
    if k == s.len() - 1 {
        assert(t.drop_last() =~= s.drop_last());
    } else {
        assert(t.drop_last() =~= s.drop_last().update(k, x));
        lemma_total_update(s.drop_last(), k, x);
    }
}

pub proof fn lemma_total_remove(s: Seq<(u64, u64)>, k: int)
    requires
        0 <= k < s.len(),
    ensures
        total(s.remove(k)) == total(s) - seglen(s[k]),
    decreases s.len(),
{
    let t = s.remove(k);
    if k == s.len() - 1 {
        assert(t =~= s.drop_last());
    } else {
        assert(t.drop_last() =~= s.drop_last().remove(k));
        assert(t.last() == s.last());
        lemma_total_remove(s.drop_last(), k);
    }
}

pub proof fn lemma_total_insert(s: Seq<(u64, u64)>, k: int, x: (u64, u64))
    requires
        0 <= k <= s.len(),
    ensures
        total(s.insert(k, x)) == total(s) + seglen(x),
    decreases s.len(),
{
    let t = s.insert(k, x);
    if k == s.len() {
        assert(t =~= s.push(x));
        lemma_total_push(s, x);
    } else {
        assert(t.drop_last() =~= s.drop_last().insert(k, x));
        assert(t.last() == s.last());
        lemma_total_insert(s.drop_last(), k, x);
    }
}

pub proof fn lemma_total_bounds(s: Seq<(u64, u64)>)
    requires
        wf(s),
    ensures
        s.len() == 0 ==> total(s) == 0,
        s.len() > 0 ==> 0 < total(s) <= s.last().1 - s[0].0,
    decreases s.len(),
{
    if s.len() > 1 {
        let t = s.drop_last();
        assert(valid(t));
        assert forall|i: int| 0 <= i < t.len() - 1 implies #[trigger] sep_at(t, i) by {
            assert(sep_at(s, i));
        }
        lemma_total_bounds(t);
        assert(sep_at(s, s.len() - 2));
        assert(t.last() == s[s.len() - 2]);
        assert(t[0] == s[0]);
        assert(total(s) == total(t) + seglen(s.last()));
        assert(s.last().0 < s.last().1);
    } else if s.len() == 1 {
        assert(s.drop_last().len() == 0);
        assert(total(s.drop_last()) == 0);
        assert(total(s) == seglen(s.last()));
        assert(s.last() == s[0]);
        assert(s[0].0 < s[0].1);
    }
}

// ---------------------------------------------------------------- coverage under the five mutation shapes

pub proof fn lemma_cov_push(s: Seq<(u64, u64)>, x: (u64, u64))
    ensures
        forall|b: int| #![trigger covered(s.push(x), b)] #![trigger covered(s, b)] #![trigger inr(x, b)]
            covered(s.push(x), b) <==> (covered(s, b) || inr(x, b)),
{
    let t = s.push(x);
    assert forall|b: int| covered(t, b) <==> (covered(s, b) || inr(x, b)) by {
        if covered(t, b) {
            let i = choose|i: int| 0 <= i < t.len() && inr(t[i], b);
            if i < s.len() {
                assert(inr(s[i], b));
            }
        }
        if covered(s, b) {
            let i = choose|i: int| 0 <= i < s.len() && inr(s[i], b);
            assert(inr(t[i], b));
        }
        if inr(x, b) {
            assert(inr(t[s.len() as int], b));
        }
    }
}

pub proof fn lemma_cov_insert(s: Seq<(u64, u64)>, k: int, x: (u64, u64))
    requires
        0 <= k <= s.len(),
    ensures
        forall|b: int| covered(s.insert(k, x), b) <==> (covered(s, b) || inr(x, b)),
{
    let t = s.insert(k, x);
    assert forall|b: int| covered(t, b) <==> (covered(s, b) || inr(x, b)) by {
        if covered(t, b) {
            let i = choose|i: int| 0 <= i < t.len() && inr(t[i], b);
            if i < k {
                assert(inr(s[i], b));
            } else if i > k {
                assert(inr(s[i - 1], b));
            }
        }
        if covered(s, b) {
            let i = choose|i: int| 0 <= i < s.len() && inr(s[i], b);
            if i < k {
                assert(inr(t[i], b));
            } else {
                assert(inr(t[i + 1], b));
            }
        }
        if inr(x, b) {
            assert(inr(t[k], b));
        }
    }
}

pub proof fn lemma_cov_grow(s: Seq<(u64, u64)>, k: int, x: (u64, u64))
    requires
        0 <= k < s.len(),
        x.0 <= s[k].0,
        s[k].1 <= x.1,
    ensures
        forall|b: int| covered(s.update(k, x), b) <==> (covered(s, b) || inr(x, b)),
{
    let t = s.update(k, x);
    assert forall|b: int| covered(t, b) <==> (covered(s, b) || inr(x, b)) by {
        if covered(t, b) {
            let i = choose|i: int| 0 <= i < t.len() && inr(t[i], b);
            if i != k {
                assert(inr(s[i], b));
            }
        }
        if covered(s, b) {
            let i = choose|i: int| 0 <= i < s.len() && inr(s[i], b);
            assert(inr(t[i], b));
        }
        if inr(x, b) {
            assert(inr(t[k], b));
        }
    }
}

pub proof fn lemma_cov_remove_sub(s: Seq<(u64, u64)>, k: int, j: int)
    requires
        0 <= k < s.len(),
        0 <= j < s.len(),
        j != k,
        s[k].0 <= s[j].0,
        s[j].1 <= s[k].1,
    ensures
        forall|b: int| covered(s.remove(j), b) <==> covered(s, b),
{
    let t = s.remove(j);
    assert forall|b: int| covered(t, b) <==> covered(s, b) by {
        if covered(t, b) {
            let i = choose|i: int| 0 <= i < t.len() && inr(t[i], b);
            if i < j {
                assert(inr(s[i], b));
            } else {
                assert(inr(s[i + 1], b));
            }
        }
        if covered(s, b) {
            let i = choose|i: int| 0 <= i < s.len() && inr(s[i], b);
            let i2 = if i == j { k } else { i };
            assert(inr(s[i2], b));
            if i2 < j {
                assert(inr(t[i2], b));
            } else {
                assert(inr(t[i2 - 1], b));
            }
        }
    }
}

// ---------------------------------------------------------------- one iteration of the coalescing loop

pub open spec fn coalesce_step(s: Seq<(u64, u64)>, k: int) -> Seq<(u64, u64)> {
    if s[k + 1].1 > s[k].1 {
        s.update(k, (s[k].0, s[k + 1].1)).remove(k + 1)
    } else {
        s.remove(k + 1)
    }
}

pub open spec fn coalesce_gain(s: Seq<(u64, u64)>, k: int) -> int {
    if s[k + 1].1 > s[k].1 {
        s[k].1 - s[k + 1].0
    } else {
        s[k + 1].1 - s[k + 1].0
    }
}

pub proof fn lemma_coalesce_step(s: Seq<(u64, u64)>, k: int)
    requires
        near(s, k),
        0 <= k,
        k + 1 < s.len(),
        s[k + 1].0 <= s[k].1,
    ensures
        near(coalesce_step(s, k), k),
        coalesce_step(s, k).len() == s.len() - 1,
        forall|b: int| covered(coalesce_step(s, k), b) <==> covered(s, b),
        total(coalesce_step(s, k)) == total(s) - coalesce_gain(s, k),
        0 <= coalesce_gain(s, k) <= seglen(s[k + 1]),
        coalesce_step(s, k)[k].0 == s[k].0,
        coalesce_step(s, k)[k].1 == (if s[k + 1].1 > s[k].1 { s[k + 1].1 } else { s[k].1 }),
        k + 1 < coalesce_step(s, k).len() ==> coalesce_step(s, k)[k + 1] == s[k + 2],
        k + 2 < s.len() ==> s[k + 1].1 < s[k + 2].0,
{
    let t = coalesce_step(s, k);
    assert(s[k].0 < s[k].1 && s[k + 1].0 < s[k + 1].1);
    if s[k + 1].1 > s[k].1 {
        let x = (s[k].0, s[k + 1].1);
        let m = s.update(k, x);
        lemma_cov_grow(s, k, x);
        assert forall|b: int| covered(m, b) <==> covered(s, b) by {
            if inr(x, b) {
                if b < s[k].1 {
                    assert(inr(s[k], b));
                } else {
                    assert(inr(s[k + 1], b));
                }
            }
        }
        assert(m[k + 1] == s[k + 1]);
        lemma_cov_remove_sub(m, k, k + 1);
        lemma_total_update(s, k, x);
        lemma_total_remove(m, k + 1);
        assert(t =~= m.remove(k + 1));
    } else {
        lemma_cov_remove_sub(s, k, k + 1);
        lemma_total_remove(s, k + 1);
    }
    // near(t, k)
    assert forall|i: int| 0 <= i < t.len() implies (#[trigger] t[i]).0 < t[i].1 by {
        if i < k {
            assert(t[i] == s[i]);
        } else if i > k {
            assert(t[i] == s[i + 1]);
        }
    }
    assert forall|i: int| 0 <= i < t.len() - 1 && i != k implies #[trigger] sep_at(t, i) by {
        if i < k {
            assert(sep_at(s, i));
            assert(t[i] == s[i]);
            assert(t[i + 1].0 == s[i + 1].0);
        } else {
            assert(sep_at(s, i + 1));
            assert(t[i] == s[i + 1]);
            assert(t[i + 1] == s[i + 2]);
        }
    }
    if k + 1 < t.len() {
        assert(sep_at(s, k + 1));
        assert(t[k + 1] == s[k + 2]);
    }
}

// ---------------------------------------------------------------- the mutation shapes of Segments::merge

pub open spec fn in_seg(seg: (u64, u64), b: int) -> bool {
    seg.0 <= b < seg.1
}

/// `t` is `s` with the bytes of `seg` added (and nothing else changed), and `r` is the growth of the byte count
pub open spec fn merged(s: Seq<(u64, u64)>, seg: (u64, u64), t: Seq<(u64, u64)>, r: int) -> bool {
    &&& wf(t)
    &&& grown(s, seg, t)
    &&& r == total(t) - total(s)
}

pub open spec fn grown(s: Seq<(u64, u64)>, seg: (u64, u64), t: Seq<(u64, u64)>) -> bool {
    forall|b: int| covered(t, b) <==> (covered(s, b) || inr(seg, b))
}

pub proof fn lemma_merge_chain(s: Seq<(u64, u64)>, seg: (u64, u64), mid: Seq<(u64, u64)>, fin: Seq<(u64, u64)>)
    requires
        grown(s, seg, mid),
        wf(fin),
        forall|b: int| covered(fin, b) <==> covered(mid, b),
    ensures
        merged(s, seg, fin, total(fin) - total(s)),
{
}

pub proof fn lemma_merge_push(s: Seq<(u64, u64)>, seg: (u64, u64))
    requires
        wf(s),
        seg.0 < seg.1,
        s.len() == 0 || s.last().1 < seg.0,
    ensures
        merged(s, seg, s.push(seg), seg.1 - seg.0),
{
    let t = s.push(seg);
    lemma_cov_push(s, seg);
    lemma_total_push(s, seg);
    assert forall|i: int| 0 <= i < t.len() implies (#[trigger] t[i]).0 < t[i].1 by {
        if i < s.len() {
            assert(t[i] == s[i]);
        }
    }
    assert forall|i: int| 0 <= i < t.len() - 1 implies #[trigger] sep_at(t, i) by {
        if i < s.len() - 1 {
            assert(sep_at(s, i));
        }
    }
}

pub proof fn lemma_merge_insert(s: Seq<(u64, u64)>, k: int, seg: (u64, u64))
    requires
        wf(s),
        seg.0 < seg.1,
        0 <= k <= s.len(),
        k > 0 ==> s[k - 1].1 < seg.0,
        k < s.len() ==> seg.1 < s[k].0,
    ensures
        merged(s, seg, s.insert(k, seg), seg.1 - seg.0),
{
    let t = s.insert(k, seg);
    lemma_cov_insert(s, k, seg);
    lemma_total_insert(s, k, seg);
    assert forall|i: int| 0 <= i < t.len() implies (#[trigger] t[i]).0 < t[i].1 by {
        if i < k {
            assert(t[i] == s[i]);
        } else if i > k {
            assert(t[i] == s[i - 1]);
        }
    }
    assert forall|i: int| 0 <= i < t.len() - 1 implies #[trigger] sep_at(t, i) by {
        if i < k - 1 {
            assert(sep_at(s, i));
        } else if i == k - 1 {
            assert(t[i] == s[k - 1]);
            assert(t[i + 1] == seg);
        } else if i == k {
            assert(t[i + 1] == s[k]);
        } else {
            assert(sep_at(s, i - 1));
            assert(t[i] == s[i - 1]);
            assert(t[i + 1] == s[i]);
        }
    }
}

/// run k is replaced by the hull x of run k and the touching/overlapping segment `seg`
pub proof fn lemma_merge_grow(s: Seq<(u64, u64)>, k: int, seg: (u64, u64), x: (u64, u64))
    requires
        wf(s),
        seg.0 < seg.1,
        0 <= k < s.len(),
        // seg touches or overlaps run k
        seg.0 <= s[k].1,
        s[k].0 <= seg.1,
        // x is the hull
        x.0 == (if seg.0 < s[k].0 { seg.0 } else { s[k].0 }),
        x.1 == (if seg.1 > s[k].1 { seg.1 } else { s[k].1 }),
        // if seg extends run k to the left, it starts strictly after the previous run
        (k > 0 && seg.0 < s[k].0) ==> s[k - 1].1 < seg.0,
    ensures
        near(s.update(k, x), k),
        (k + 1 < s.len() ==> x.1 < s[k + 1].0) ==> merged(s, seg, s.update(k, x), seglen(x) - seglen(s[k])),
        grown(s, seg, s.update(k, x)),
        total(s.update(k, x)) == total(s) - seglen(s[k]) + seglen(x),
        k + 1 < s.len() ==> s[k].1 < s[k + 1].0,
{
    let t = s.update(k, x);
    lemma_cov_grow(s, k, x);
    lemma_total_update(s, k, x);
    assert(s[k].0 < s[k].1);
    assert forall|b: int| covered(t, b) <==> (covered(s, b) || inr(seg, b)) by {
        if inr(x, b) && !inr(seg, b) {
            assert(inr(s[k], b));
        }
        if inr(seg, b) {
            assert(inr(x, b));
        }
    }
    assert forall|i: int| 0 <= i < t.len() implies (#[trigger] t[i]).0 < t[i].1 by {
        if i != k {
            assert(t[i] == s[i]);
        }
    }
    assert forall|i: int| 0 <= i < t.len() - 1 && i != k implies #[trigger] sep_at(t, i) by {
        assert(sep_at(s, i));
        if i == k - 1 {
            assert(t[i] == s[i]);
        }
    }
    if k + 1 < s.len() {
        assert(sep_at(s, k));
        if x.1 < s[k + 1].0 {
            assert(sep_at(t, k));
        }
    }
}

/// seg lies inside run k: nothing changes
pub proof fn lemma_merge_embedded(s: Seq<(u64, u64)>, k: int, seg: (u64, u64))
    requires
        wf(s),
        0 <= k < s.len(),
        s[k].0 <= seg.0,
        seg.1 <= s[k].1,
    ensures
        merged(s, seg, s, 0),
{
    assert forall|b: int| inr(seg, b) implies covered(s, b) by {
        assert(inr(s[k], b));
    }
}

// ---------------------------------------------------------------- end / completeness

pub proof fn lemma_last_is_sup(s: Seq<(u64, u64)>)
    requires
        wf(s),
    ensures
        s.len() == 0 ==> forall|b: int| !covered(s, b),
        s.len() > 0 ==> covered(s, s.last().1 - 1),
        s.len() > 0 ==> forall|b: int| covered(s, b) ==> b < s.last().1,
{
    if s.len() > 0 {
        let n = s.len() - 1;
        assert(s[n].0 < s[n].1);
        assert(inr(s[n], s[n].1 - 1));
        assert forall|b: int| covered(s, b) implies b < s.last().1 by {
            let i = choose|i: int| 0 <= i < s.len() && inr(s[i], b);
            if i < n {
                lemma_sorted(s, i, n);
            }
        }
    }
}

/// every byte of [0, n) is held  <=>  n == 0, or the first run starts at 0 and reaches n
pub proof fn lemma_complete_iff(s: Seq<(u64, u64)>, n: int)
    requires
        wf(s),
        0 <= n,
    ensures
        (forall|b: int| 0 <= b < n ==> covered(s, b)) <==> (n == 0 || (s.len() > 0 && s[0].0 == 0 && s[0].1 >= n)),
{
    if n == 0 {
    } else if s.len() > 0 && s[0].0 == 0 && s[0].1 >= n {
        assert forall|b: int| 0 <= b < n implies covered(s, b) by {
            assert(inr(s[0], b));
        }
    } else {
        // exhibit a byte of [0, n) that is not held
        let w: int = if s.len() == 0 || s[0].0 > 0 { 0 } else { s[0].1 as int };
        assert(0 <= w < n);
        assert(!covered(s, w)) by {
            if covered(s, w) {
                let i = choose|i: int| 0 <= i < s.len() && inr(s[i], w);
                if i > 0 {
                    lemma_sorted(s, 0, i);
                    assert(s[0].0 < s[0].1);
                }
            }
        }
    }
}

// ---------------------------------------------------------------- gaps

pub open spec fn uncov(s: Seq<(u64, u64)>, lo: int, hi: int) -> bool {
    forall|x: int| lo <= x < hi ==> !covered(s, x)
}

/// start of run j, or 2^64 (beyond every byte position) when there is no run j
pub open spec fn next_start(s: Seq<(u64, u64)>, j: int) -> int {
    if 0 <= j < s.len() { s[j].0 as int } else { 0x1_0000_0000_0000_0000int }
}

/// loop state of `gaps`: the window [start, p) has been classified, g holds exactly its uncovered bytes
pub open spec fn gaps_ok(s: Seq<(u64, u64)>, g: Seq<(u64, u64)>, start: int, p: int, end: int) -> bool {
    &&& wf(g)
    &&& forall|x: int| covered(g, x) ==> start <= x < p && x < end
    &&& forall|x: int| start <= x < p ==> (covered(g, x) <==> !covered(s, x))
    &&& (g.len() > 0 ==> g.last().1 < p)
}

/// the result of `gaps`: exactly the maximal uncovered sub-ranges of the window
pub open spec fn gaps_exact(s: Seq<(u64, u64)>, g: Seq<(u64, u64)>, start: int, end: int) -> bool {
    &&& wf(g)
    &&& forall|i: int| 0 <= i < g.len() ==> start <= (#[trigger] g[i]).0 && g[i].1 <= end
    &&& forall|x: int| start <= x < end ==> (covered(g, x) <==> !covered(s, x))
}

pub proof fn lemma_uncov_between(s: Seq<(u64, u64)>, j: int)
    requires
        wf(s),
        0 <= j <= s.len(),
    ensures
        uncov(s, if j > 0 { s[j - 1].1 as int } else { 0 }, next_start(s, j)),
        0 < j < s.len() ==> s[j - 1].1 < s[j].0,
{
    let lo: int = if j > 0 { s[j - 1].1 as int } else { 0 };
    assert forall|x: int| lo <= x < next_start(s, j) implies !covered(s, x) by {
        if covered(s, x) {
            let i = choose|i: int| 0 <= i < s.len() && inr(s[i], x);
            if i < j {
                if i < j - 1 {
                    lemma_sorted(s, i, j - 1);
                    assert(s[j - 1].0 < s[j - 1].1);
                }
            } else {
                if i > j {
                    lemma_sorted(s, j, i);
                    assert(s[j].0 < s[j].1);
                }
            }
        }
    }
    if 0 < j < s.len() {
        assert(sep_at(s, j - 1));
    }
}

pub proof fn lemma_gaps_init_ok(s: Seq<(u64, u64)>, k: int, start: int, end: int)
    requires
        wf(s),
        0 <= k < s.len(),
        s[k].0 == start,
    ensures
        gaps_ok(s, Seq::<(u64, u64)>::empty(), start, s[k].1 as int, end),
        uncov(s, s[k].1 as int, next_start(s, k + 1)),
        start <= s[k].1,
        k + 1 < s.len() ==> s[k].1 < s[k + 1].0,
{
    let g = Seq::<(u64, u64)>::empty();
    lemma_uncov_between(s, k + 1);
    assert(s[k].0 < s[k].1);
    assert forall|x: int| start <= x < s[k].1 implies (covered(g, x) <==> !covered(s, x)) by {
        assert(inr(s[k], x));
    }
}

pub proof fn lemma_gaps_init_err(s: Seq<(u64, u64)>, k: int, start: int, end: int, p: int)
    requires
        wf(s),
        0 <= k <= s.len(),
        forall|i: int| 0 <= i < k ==> (#[trigger] s[i]).0 < start,
        forall|i: int| k <= i < s.len() ==> (#[trigger] s[i]).0 > start,
        p == (if k == 0 { start } else if s[k - 1].1 > start { s[k - 1].1 as int } else { start }),
    ensures
        gaps_ok(s, Seq::<(u64, u64)>::empty(), start, p, end),
        uncov(s, p, next_start(s, k)),
        start <= p,
        k < s.len() ==> p < s[k].0,
{
    let g = Seq::<(u64, u64)>::empty();
    lemma_uncov_between(s, k);
    assert forall|x: int| start <= x < p implies (covered(g, x) <==> !covered(s, x)) by {
        assert(k > 0);
        assert(inr(s[k - 1], x));
    }
}

pub proof fn lemma_gaps_step(s: Seq<(u64, u64)>, g: Seq<(u64, u64)>, start: int, p: u64, end: int, j: int)
    requires
        wf(s),
        gaps_ok(s, g, start, p as int, end),
        0 <= j < s.len(),
        start <= p < s[j].0,
        s[j].0 < end,
        uncov(s, p as int, s[j].0 as int),
    ensures
        gaps_ok(s, g.push((p, s[j].0)), start, s[j].1 as int, end),
        uncov(s, s[j].1 as int, next_start(s, j + 1)),
        j + 1 < s.len() ==> s[j].1 < s[j + 1].0,
        start <= s[j].1,
{
    let n = (p, s[j].0);
    let g2 = g.push(n);
    lemma_uncov_between(s, j + 1);
    lemma_cov_push(g, n);
    assert(s[j].0 < s[j].1);
    assert forall|i: int| 0 <= i < g2.len() implies (#[trigger] g2[i]).0 < g2[i].1 by {
        if i < g.len() {
            assert(g2[i] == g[i]);
        }
    }
    assert forall|i: int| 0 <= i < g2.len() - 1 implies #[trigger] sep_at(g2, i) by {
        if i < g.len() - 1 {
            assert(sep_at(g, i));
        }
    }
    assert forall|x: int| start <= x < s[j].1 implies (covered(g2, x) <==> !covered(s, x)) by {
        assert(covered(g2, x) <==> (covered(g, x) || inr(n, x)));
        if x < p {
            assert(!inr(n, x));
        } else if x < s[j].0 {
            assert(inr(n, x));
            assert(!covered(s, x));
        } else {
            assert(inr(s[j], x));
            assert(!inr(n, x));
            assert(!covered(g, x));
        }
    }
    assert forall|x: int| covered(g2, x) implies start <= x < s[j].1 && x < end by {
        assert(covered(g2, x) <==> (covered(g, x) || inr(n, x)));
    }
}

pub proof fn lemma_gaps_finish(s: Seq<(u64, u64)>, g: Seq<(u64, u64)>, start: int, p: u64, end: u64)
    requires
        gaps_ok(s, g, start, p as int, end as int),
        start <= p,
        p >= end || uncov(s, p as int, end as int),
    ensures
        gaps_exact(s, if p < end { g.push((p, end)) } else { g }, start, end as int),
{
    let g2 = if p < end { g.push((p, end)) } else { g };
    if p < end {
        let n = (p, end);
        lemma_cov_push(g, n);
        assert forall|i: int| 0 <= i < g2.len() implies (#[trigger] g2[i]).0 < g2[i].1 by {
            if i < g.len() {
                assert(g2[i] == g[i]);
            }
        }
        assert forall|i: int| 0 <= i < g2.len() - 1 implies #[trigger] sep_at(g2, i) by {
            if i < g.len() - 1 {
                assert(sep_at(g, i));
            }
        }
    }
    assert forall|x: int| covered(g2, x) implies start <= x < end by {
        if p < end {
            assert(covered(g2, x) <==> (covered(g, x) || inr((p, end), x)));
        }
    }
    assert forall|x: int| start <= x < end implies (covered(g2, x) <==> !covered(s, x)) by {
        if p < end {
            assert(covered(g2, x) <==> (covered(g, x) || inr((p, end), x)));
            if x >= p {
                assert(inr((p, end), x));
            }
        }
    }
    assert forall|i: int| 0 <= i < g2.len() implies start <= (#[trigger] g2[i]).0 && g2[i].1 <= end by {
        assert(g2[i].0 < g2[i].1);
        assert(inr(g2[i], g2[i].0 as int));
        assert(inr(g2[i], g2[i].1 - 1));
        assert(covered(g2, g2[i].0 as int));
        assert(covered(g2, g2[i].1 - 1));
    }
}

/// what `gaps_exact` means, spelled out: non-empty, inside the window, strictly separated (hence maximal),
/// covering exactly the bytes of the window that are not held
pub proof fn lemma_gaps_exact_maximal(s: Seq<(u64, u64)>, g: Seq<(u64, u64)>, start: int, end: int)
    requires
        gaps_exact(s, g, start, end),
    ensures
        start >= end ==> g.len() == 0,
        forall|i: int| 0 <= i < g.len() ==> (#[trigger] g[i]).0 < g[i].1,
        // left-maximal: the byte before a gap is outside the window or held
        forall|i: int| 0 <= i < g.len() ==> (#[trigger] g[i]).0 == start || covered(s, g[i].0 - 1),
        // right-maximal
        forall|i: int| 0 <= i < g.len() ==> (#[trigger] g[i]).1 == end || covered(s, g[i].1 as int),
{
    if start >= end && g.len() > 0 {
        assert(g[0].0 < g[0].1);
    }
    assert forall|i: int| 0 <= i < g.len() implies (#[trigger] g[i]).0 == start || covered(s, g[i].0 - 1) by {
        let x = g[i].0 - 1;
        assert(g[i].0 < g[i].1);
        if g[i].0 != start {
            if covered(g, x) {
                let m = choose|m: int| 0 <= m < g.len() && inr(g[m], x);
                if m < i {
                    lemma_sorted(g, m, i);
                } else if m > i {
                    lemma_sorted(g, i, m);
                    assert(g[m].0 < g[m].1);
                }
            }
        }
    }
    assert forall|i: int| 0 <= i < g.len() implies (#[trigger] g[i]).1 == end || covered(s, g[i].1 as int) by {
        let x = g[i].1 as int;
        assert(g[i].0 < g[i].1);
        if g[i].1 != end {
            if covered(g, x) {
                let m = choose|m: int| 0 <= m < g.len() && inr(g[m], x);
                if m < i {
                    lemma_sorted(g, m, i);
                    assert(g[m].0 < g[m].1);
                } else if m > i {
                    lemma_sorted(g, i, m);
                }
            }
        }
    }
}

// ---------------------------------------------------------------- total(s) is the number of distinct bytes held

/// the set of byte positions held (a finite set by construction)
pub open spec fn held(s: Seq<(u64, u64)>) -> Set<int>
    decreases s.len(),
{
    if s.len() == 0 {
        Set::<int>::empty()
    } else {
        held(s.drop_last()).union(vstd::set_lib::set_int_range(s.last().0 as int, s.last().1 as int))
    }
}

pub proof fn lemma_held_is_covered(s: Seq<(u64, u64)>)
    ensures
        forall|b: int| held(s).contains(b) <==> covered(s, b),
    decreases s.len(),
{
    if s.len() > 0 {
        let t = s.drop_last();
        let x = s.last();
        lemma_held_is_covered(t);
        assert(s =~= t.push(x));
        lemma_cov_push(t, x);
        assert forall|b: int| held(s).contains(b) <==> covered(s, b) by {
            assert(covered(t.push(x), b) <==> (covered(t, b) || inr(x, b)));
        }
    }
}

pub proof fn lemma_total_is_cardinality(s: Seq<(u64, u64)>)
    requires
        wf(s),
    ensures
        held(s).len() == total(s),
    decreases s.len(),
{
    if s.len() > 0 {
        let t = s.drop_last();
        let x = s.last();
        assert(valid(t));
        assert forall|i: int| 0 <= i < t.len() - 1 implies #[trigger] sep_at(t, i) by {
            assert(sep_at(s, i));
        }
        lemma_total_is_cardinality(t);
        lemma_held_is_covered(t);
        let r = vstd::set_lib::set_int_range(x.0 as int, x.1 as int);
        vstd::set_lib::lemma_int_range(x.0 as int, x.1 as int);
        assert(x.0 < x.1);
        assert(held(t).disjoint(r)) by {
            assert forall|b: int| !(held(t).contains(b) && r.contains(b)) by {
                if covered(t, b) && r.contains(b) {
                    let i = choose|i: int| 0 <= i < t.len() && inr(t[i], b);
                    lemma_sorted(s, i, s.len() - 1);
                }
            }
        }
        vstd::set_lib::lemma_set_disjoint_lens(held(t), r);
    }
}
