"""Self-test of the machinery (not a registered check): apply small property-breaking edits and harmless edits to a scratch copy of
/repo, run the checks against the copy, expect exit 1 resp. exit 0.   python3 vp.py selftest [--only NAME]
The scratch copy lives under /tmp and is removed afterwards."""
import os
import shutil
import subprocess
import sys

VERIF = os.path.dirname(os.path.abspath(__file__))
SCRATCH = "/tmp/verif_selftest_repo"

SEG = "cfdp-daemon/src/segments.rs"
TIM = "cfdp-daemon/src/timer.rs"
RECV = "cfdp-daemon/src/transaction/recv.rs"
SEND = "cfdp-daemon/src/transaction/send.rs"
PDU = "cfdp-core/src/pdu.rs"
FS = "cfdp-core/src/filestore.rs"

# (name, file, old, new, {property: expected rc})
BREAKING = [
    ("seg-merge-drop-overlap", SEG, "newly_received -= merge(v, 0);", "merge(v, 0);", {"C09": 1, "C20": 1}),
    ("seg-merge-adjacent-not-coalesced", SEG, "while k + 1 < v.len() && v[k + 1].0 <= v[k].1 {", "while k + 1 < v.len() && v[k + 1].0 < v[k].1 {", {"C09": 1}),
    ("seg-complete-ignores-start", SEG, "size == 0 || (!self.0.is_empty() && self.0[0].0 == 0 && self.0[0].1 >= size)",
     "size == 0 || (!self.0.is_empty() && self.0[0].1 >= size)", {"C09": 1, "C08": 1}),
    ("seg-gaps-inverted", SEG, "            if *s >= end {\n                break;\n            }",
     "            if *s >= end {\n                gaps.push((pointer, end));\n                pointer = end;\n                break;\n            }", {"C09": 1, "C08": 1}),
    ("seg-gaps-overflowing-compare", SEG, "if pointer > end {", "if pointer + 1 > end {", {"C09": 1}),   # overflows for offsets near 2^64
    ("timer-restart-clears-count", TIM, "        self.paused = false;\n        self.occurred = false;\n    }\n\n    /// start the timer (if it was paused), setting the start_time\n    /// clear the occurred flag\n    /// reset",
     "        self.paused = false;\n        self.occurred = false;\n        self.count = 0;\n    }\n\n    /// start the timer (if it was paused), setting the start_time\n    /// clear the occurred flag\n    /// reset", {"C17": 1}),
    ("timer-update-drops-remainder", TIM, "self.start_time += self.timeout;", "self.start_time = now;", {"C17": 1}),
    ("timer-paused-still-counts", TIM, "        if self.paused {\n            return;\n        }\n        let now", "        let now", {"C17": 1, "C19": 1}),
    ("recv-gate-removed", RECV, "        if self.state == TransactionState::Suspended {\n            return false;\n        }\n        match self.recv_state {", "        match self.recv_state {", {"C19": 1}),
    ("send-gate-removed", SEND, "        if self.state == TransactionState::Suspended {\n            return false;\n        }\n        self.prompt.is_some()", "        self.prompt.is_some()", {"C19": 1}),
    ("recv-suspend-forgets-nak-timer", RECV, "        self.timer.ack.pause();\n        self.timer.nak.pause();\n        self.timer.inactivity.pause();\n        self.state = TransactionState::Suspended;",
     "        self.timer.ack.pause();\n        self.timer.inactivity.pause();\n        self.state = TransactionState::Suspended;", {"C19": 1}),
    ("recv-refinalise", RECV, "        if self.recv_state == RecvState::ReceiveData\n            && self.metadata.is_some()", "        if self.metadata.is_some()", {"C04": 1}),
    ("recv-finalise-without-completeness", RECV, "            && !(self.is_file_transfer() && self.has_naks())", "            && !(self.is_file_transfer() && self.saved_segments.len() > 1)", {"C04": 1}),
    ("recv-fault-default-ignore", RECV, ".unwrap_or(&FaultHandlerAction::Cancel)\n        {\n            FaultHandlerAction::Ignore", ".unwrap_or(&FaultHandlerAction::Ignore)\n        {\n            FaultHandlerAction::Ignore", {"C17": 1}),
    ("send-abandon-progress-0", SEND, "            progress: self.get_progress(),\n        }));\n\n        self.status = TransactionStatus::Terminated;", "            progress: 0,\n        }));\n\n        self.status = TransactionStatus::Terminated;", {"C20": 1}),
    ("send-suspend-drops-file-handle", SEND, "        self.state = TransactionState::Suspended;\n\n        self.send_indication(Indication::Suspended(SuspendIndication {",
     "        self.state = TransactionState::Suspended;\n        self.file_handle = None;\n\n        self.send_indication(Indication::Suspended(SuspendIndication {", {"C07": 1}),   # seed C07_c
    ("recv-nak-limit-on-raw-count", RECV, "                if self.timer.nak.timeout_occurred() {\n                    self.naks = self.get_all_naks();",
     "                if self.timer.nak.timeout_occurred() {\n                    if self.timer.nak.limit_reached()\n                        && !self.handle_fault(Condition::NakLimitReached)?\n                    {\n                        return Ok(());\n                    }\n                    self.naks = self.get_all_naks();", {"C17": 1}),   # seed C17_c
    ("send-progress-accumulates", SEND, "self.sent_file_size = std::cmp::max(self.sent_file_size, offset + data.len() as u64);", "self.sent_file_size += offset + length as u64;", {"C20": 1}),
    ("send-timeout-fault-before-limit", SEND, "                    if self.timer.ack.limit_reached() {\n                        self.handle_fault(Condition::PositiveLimitReached)?",
     "                    if self.timer.ack.timeout_occurred() {\n                        self.handle_fault(Condition::PositiveLimitReached)?", {"C17": 1}),
    ("recv-nak-skips-first-gap", RECV, "segments.gaps(0, self.file_size.unwrap_or(segments.end_or_0()))", "segments.gaps(1, self.file_size.unwrap_or(segments.end_or_0()))", {"C08": 1}),
    ("send-retransmission-moves-cursor", SEND, "                        // restore to original location in the file\n                        let handle = self.get_handle()?;\n                        handle\n                            .seek(SeekFrom::Start(current_pos))\n                            .map_err(FileStoreError::IO)?;\n                        Ok(())",
     "                        let _ = current_pos;\n                        Ok(())", {"C07": 1}),
    ("send-eof-one-byte-early", SEND, "                    if handle.stream_position().map_err(FileStoreError::IO)?\n                        == handle.metadata().map_err(FileStoreError::IO)?.len()",
     "                    if handle.stream_position().map_err(FileStoreError::IO)? + 1\n                        >= handle.metadata().map_err(FileStoreError::IO)?.len()", {"C07": 1}),
    ("send-segment-reads-behind-offset", SEND, "        handle\n            .seek(SeekFrom::Start(offset))\n            .map_err(FileStoreError::IO)?;\n\n        // use take",
     "        handle\n            .seek(SeekFrom::Start(offset.saturating_sub(1)))\n            .map_err(FileStoreError::IO)?;\n\n        // use take", {"C07": 1}),
    ("transport-decodes-whole-buffer", "cfdp-daemon/src/transport.rs", "PDU::decode(&mut &self.buffer[..n])", "PDU::decode(&mut self.buffer.as_slice())", {"C16": 1}),
    ("filestore-root-prefix-unnormalised", FS, "        let relative = path.strip_prefix(&self.root_path).unwrap_or(path);\n        self.root_path.join(normalize_path(relative))",
     "        if path.starts_with(&self.root_path) {\n            return path.to_path_buf();\n        }\n        self.root_path.join(normalize_path(path))", {"C12": 1}),
    ("filestore-normalize-keeps-parent", FS, "            Utf8Component::ParentDir => {\n                ret.pop();\n            }", "            Utf8Component::ParentDir => {\n                ret.push(\"..\");\n            }", {"C12": 1}),
    ("recv-failrest-forgotten", RECV, "                            fail_rest = rep.action_and_status.is_fail();", "                            let _ = rep.action_and_status.is_fail();", {"C13": 1}),
    ("recv-not-performed-executes", RECV, "                        true => FileStoreResponse::not_performed(request),", "                        true => self.filestore.process_request(request),", {"C13": 1}),
    ("recv-complete-unconditional", RECV, "        self.delivery_code = if self.has_naks() {\n            DeliveryCode::Incomplete\n        } else {\n            DeliveryCode::Complete\n        };", "        self.delivery_code = DeliveryCode::Complete;", {"C18": 1}),
    ("recv-finished-pdu-drops-responses", RECV, "                filestore_response: self.filestore_response.clone(),\n                fault_location,", "                filestore_response: vec![],\n                fault_location,", {"C13": 1}),
    ("send-unack-closure-shutdown", SEND, "                                self.shutdown();\n                            }\n                        }\n                    }\n                }\n                SendState::Cancelled", "                            }\n                            self.shutdown();\n                        }\n                    }\n                }\n                SendState::Cancelled", {"C18": 1}),
    ("recv-resume-naks-any-mode", RECV, "                if self.config.transmission_mode == TransmissionMode::Acknowledged\n                    && (matches!(self.nak_procedure, NakProcedure::Immediate(_))\n                        || self.eof_received())", "                if matches!(self.nak_procedure, NakProcedure::Immediate(_)) || self.eof_received()", {"C18": 1}),
    ("recv-cancel-returns-to-receive", RECV, "    fn _cancel(&mut self) {\n        self.recv_state = RecvState::Cancelled;", "    fn _cancel(&mut self) {\n        self.recv_state = RecvState::ReceiveData;", {"C10": 1}),
    ("recv-peer-cancel-keeps-noerror", RECV, "                                self.condition = eof.condition;\n                                self.prepare_ack_eof();", "                                self.prepare_ack_eof();", {"C10": 1}),
    ("send-cancel-without-fault-location", SEND, "        self.prepare_eof(Some(self.config.source_entity_id))", "        self.prepare_eof(None)", {"C10": 1}),
    ("send-cancelled-ack-stops-clock", SEND, "        if self.send_state == SendState::SendEof || self.send_state == SendState::Cancelled {", "        if self.send_state == SendState::SendEof {", {"C03": 1}),
    ("recv-shutdown-keeps-active", RECV, "        self.state = TransactionState::Terminated;\n        self.timer.ack.pause();\n        self.timer.nak.pause();", "        self.timer.ack.pause();\n        self.timer.nak.pause();", {"C03": 1}),
    ("send-metadata-swapped-names", SEND, "            source_filename: self.metadata.source_filename.clone(),\n            destination_filename: self.metadata.destination_filename.clone(),\n            options:", "            source_filename: self.metadata.destination_filename.clone(),\n            destination_filename: self.metadata.source_filename.clone(),\n            options:", {"C07": 1}),
    ("send-eof-checksum-stale-cache", SEND, "                self.checksum = Some(checksum);\n                Ok(checksum)", "                self.checksum = Some(0);\n                Ok(checksum)", {"C07": 1}),
    ("send-eof-size-from-progress", SEND, "                file_size: self.metadata.file_size,\n                fault_location,", "                file_size: self.sent_file_size,\n                fault_location,", {"C07": 1}),
    ("crc-poly-typo", PDU, "let poly = 0x1021;", "let poly = 0x1012;", {"C15": 1}),
    ("crc-over-reencoding", PDU, "                    let mut temp = received_pdu.header.clone().encode();\n                    temp.extend_from_slice(remaining_msg.as_slice());\n                    temp",
     "                    let mut temp = received_pdu.clone().encode();\n                    temp.truncate(temp.len() - 2);\n                    temp", {"C15": 1}),
    ("checksum-pad-on-flush", FS, "            if self.filled == 4 {\n                self.sum = self.sum.wrapping_add(u32_from_be_bytes", "XX", {}),  # placeholder (never matches)
    ("checksum-forget-clear", FS, "                self.pending = [0_u8; 4];\n                self.filled = 0;", "                self.filled = 0;", {"C14": 1}),
    ("checksum-little-endian-tail", FS, "            self.sum\n                .wrapping_add(u32::from_be_bytes(self.pending))", "            self.sum\n                .wrapping_add(u32::from_le_bytes(self.pending))", {"C14": 1}),
]

HARMLESS = [
    ("seg-gaps-flipped-compare", SEG, "if pointer > end {", "if end < pointer {", {"C09": 0, "C08": 0}),
    ("seg-rename-local", SEG, "let mut newly_received = 0;", "let mut newly_received = 0; // count of new bytes", {"C09": 0, "C08": 0, "C20": 0}),
    ("seg-extra-log-comment", SEG, "        let v = &mut self.0;\n\n        let len = v.len();", "        let v = &mut self.0;\n        // refactoring note\n        let len = v.len();", {"C09": 0}),
    ("recv-extra-debug", RECV, "    pub fn shutdown(&mut self) {\n        debug!(\"Transaction {0} shutting down.\", self.id());",
     "    pub fn shutdown(&mut self) {\n        debug!(\"Transaction {0} shutting down.\", self.id());\n        debug!(\"bye\");", {"C17": 0, "C19": 0, "C04": 0}),
    ("send-reorder-independent", SEND, "        self.timer.ack.pause();\n        self.timer.inactivity.pause();\n        self.state = TransactionState::Suspended;",
     "        self.timer.inactivity.pause();\n        self.timer.ack.pause();\n        self.state = TransactionState::Suspended;", {"C19": 0, "C17": 0}),
    ("send-first-pass-explicit-offset", SEND, "                        self.send_file_segment(None, None, permit, true)?", "                        self.send_file_segment(Some(self.get_progress()), None, permit, true)?", {"C07": 0}),
    ("recv-extract-finish-helper", RECV, "            self.finalize_receive()?;\n            self.recv_state = RecvState::Finished;\n            self.prepare_finished(None);\n            self.timer.nak.pause();\n        }\n        Ok(())\n    }\n",
     "            self.finish()?;\n        }\n        Ok(())\n    }\n\n    fn finish(&mut self) -> TransactionResult<()> {\n        self.finalize_receive()?;\n        self.recv_state = RecvState::Finished;\n        self.prepare_finished(None);\n        self.timer.nak.pause();\n        Ok(())\n    }\n", {"C04": 0, "C17": 0}),
    ("send-extract-pause-helper", SEND, "    pub fn suspend(&mut self) -> TransactionResult<()> {\n        self.timer.ack.pause();\n        self.timer.inactivity.pause();\n        self.state = TransactionState::Suspended;",
     "    fn pause_timers(&mut self) {\n        self.timer.ack.pause();\n        self.timer.inactivity.pause();\n    }\n\n    pub fn suspend(&mut self) -> TransactionResult<()> {\n        self.pause_timers();\n        self.state = TransactionState::Suspended;", {"C19": 0}),
    ("send-extract-helper-forgets-inactivity", SEND, "    pub fn suspend(&mut self) -> TransactionResult<()> {\n        self.timer.ack.pause();\n        self.timer.inactivity.pause();\n        self.state = TransactionState::Suspended;",
     "    fn pause_timers(&mut self) {\n        self.timer.ack.pause();\n    }\n\n    pub fn suspend(&mut self) -> TransactionResult<()> {\n        self.pause_timers();\n        self.state = TransactionState::Suspended;", {"C19": 1}),
    ("filestore-strip-prefix-match", FS, "        let relative = path.strip_prefix(&self.root_path).unwrap_or(path);", "        let relative = match path.strip_prefix(&self.root_path) {\n            Ok(rest) => rest,\n            Err(_) => path,\n        };", {"C12": 0}),
    ("transport-named-slice", "cfdp-daemon/src/transport.rs", "        match PDU::decode(&mut &self.buffer[..n]) {", "        let datagram = &self.buffer[..n];\n        match PDU::decode(&mut &datagram[..]) {", {"C16": 0}),
    ("recv-delivery-code-match", RECV, "        self.delivery_code = if self.has_naks() {\n            DeliveryCode::Incomplete\n        } else {\n            DeliveryCode::Complete\n        };", "        self.delivery_code = match self.has_naks() {\n            true => DeliveryCode::Incomplete,\n            false => DeliveryCode::Complete,\n        };", {"C18": 0, "C13": 0, "C04": 0}),
    ("send-cancel-order", SEND, "        self.timer.inactivity.pause();\n        self.condition = condition;\n        self.send_state = SendState::Cancelled;", "        self.condition = condition;\n        self.send_state = SendState::Cancelled;\n        self.timer.inactivity.pause();", {"C10": 0, "C03": 0, "C17": 0}),
    ("recv-resume-nested-if", RECV, "                if self.config.transmission_mode == TransmissionMode::Acknowledged\n                    && (matches!(self.nak_procedure, NakProcedure::Immediate(_))\n                        || self.eof_received())\n                {", "                if self.config.transmission_mode == TransmissionMode::Acknowledged\n                    && (self.eof_received()\n                        || matches!(self.nak_procedure, NakProcedure::Immediate(_)))\n                {", {"C18": 0, "C19": 0}),
    ("timer-comment", TIM, "        let now = Instant::now();\n        while", "        let now = Instant::now();\n        // count the expirations\n        while", {"C17": 0}),
]


def run_check(prop, repo):
    r = subprocess.run([sys.executable, os.path.join(VERIF, "vp.py"), "check", prop, "--repo", repo], capture_output=True, text=True)
    tail = [l for l in r.stdout.splitlines() if l.startswith(("VIOLATION", "UNDECIDED", "OK", "FAILED"))][:3]
    return r.returncode, tail


def main(only=None):
    if os.path.exists(SCRATCH):
        shutil.rmtree(SCRATCH)
    subprocess.run(["rsync", "-a", "--exclude", "target", "--exclude", ".git", "/repo/", SCRATCH + "/"], check=True)
    bad = 0
    # (evidence of runs against a tree other than /repo goes to build/evidence_other: nothing to save or restore here)
    try:
        for group, cases in (("breaking", BREAKING), ("harmless", HARMLESS)):
            for (name, f, old, new, expect) in cases:
                if only and name not in only.split(","):
                    continue
                if not expect:
                    continue
                p = os.path.join(SCRATCH, f)
                src = open(p).read()
                if src.count(old) != 1:
                    print("SELFTEST %-40s SKIP: anchor occurs %d times in %s" % (name, src.count(old), f))
                    bad += 1
                    continue
                open(p, "w").write(src.replace(old, new))
                try:
                    for prop, want in expect.items():
                        rc, tail = run_check(prop, SCRATCH)
                        ok = (rc == want) or (group == "breaking" and want == 0 and rc in (0, 2)) or (group == "breaking" and want == 2 and rc in (1, 2))
                        print("SELFTEST %-40s %-4s expected rc=%d got rc=%d %s %s" % (name, prop, want, rc, "ok" if ok else "MISMATCH", " | ".join(tail)[:160]))
                        bad += 0 if ok else 1
                finally:
                    open(p, "w").write(src)
    finally:
        shutil.rmtree(SCRATCH, ignore_errors=True)
        import glob
        for pat in ("native_*", "dnative_*", os.path.join("kani", "*")):
            for d in glob.glob(os.path.join(VERIF, "build", pat)):
                if "native_target" not in d and not d.endswith(_tag("/repo")):
                    shutil.rmtree(d, ignore_errors=True)
    print("SELFTEST: %d mismatches" % bad)
    return 1 if bad else 0


def _tag(repo):
    import hashlib
    return hashlib.sha1(os.path.abspath(repo).encode()).hexdigest()[:8]
