// Native counterexample search / replay for cfdp-daemon/src/segments.rs (the REAL source file is compiled in via #[path]).
// Not a proof: a bounded enumeration whose only job is to turn a failed Verus obligation into a concrete failing input.
//   segsearch search            -> first failing case as one JSON line, exit 1; exit 0 if none within the bound
//   segsearch replay a-b,c-d,.. QUERY   -> re-run one case, print observed vs expected
#![allow(dead_code)]
#[path = "@REPO@/cfdp-daemon/src/segments.rs"]
mod segments;
use segments::Segments;
use std::panic;

const M: u64 = 9; // universe of byte positions 0..M

fn bits(ops: &[(u64, u64)]) -> u64 {
    let mut b = 0u64;
    for (s, e) in ops {
        for x in *s..*e {
            b |= 1 << x;
        }
    }
    b
}

fn exp_gaps(held: u64, start: u64, end: u64) -> Vec<(u64, u64)> {
    let mut out = vec![];
    let mut x = start;
    while x < end {
        if held >> x & 1 == 0 {
            let s = x;
            while x < end && held >> x & 1 == 0 {
                x += 1;
            }
            out.push((s, x));
        } else {
            x += 1;
        }
    }
    out
}

fn fail(ops: &[(u64, u64)], query: String, observed: String, expected: String) -> ! {
    let ops_s: Vec<String> = ops.iter().map(|(a, b)| format!("{}-{}", a, b)).collect();
    println!(
        "{{\"kind\":\"segments\",\"ops\":\"{}\",\"query\":\"{}\",\"observed\":\"{}\",\"expected\":\"{}\"}}",
        ops_s.join(","), query, observed, expected
    );
    std::process::exit(1)
}

/// run one operation sequence and every query against the bit-set meaning; `only` restricts the queries (replay)
fn run(ops: &[(u64, u64)], only: Option<&str>) {
    let r = panic::catch_unwind(|| {
        let mut s = Segments::new();
        let mut held = 0u64;
        for (i, seg) in ops.iter().enumerate() {
            let got = s.merge(*seg);
            let now = held | bits(&[*seg]);
            let want = (now & !held).count_ones() as u64;
            if got != want && only.map_or(true, |q| q.starts_with("merge")) {
                fail(&ops[..=i], format!("merge({},{}) return value", seg.0, seg.1), got.to_string(), format!("{} new bytes", want));
            }
            held = now;
        }
        for n in 0..=M + 1 {
            let want = (0..n).all(|x| held >> x & 1 == 1);
            let got = s.is_complete(n);
            let q = format!("is_complete({})", n);
            if got != want && only.map_or(true, |o| q.starts_with(o)) {
                fail(ops, q, got.to_string(), want.to_string());
            }
        }
        for start in 0..=M + 1 {
            for end in 0..=M + 1 {
                let want = exp_gaps(held, start, end);
                let got = s.gaps(start, end);
                let q = format!("gaps({},{})", start, end);
                if got != want && only.map_or(true, |o| q.starts_with(o)) {
                    fail(ops, q, format!("{:?}", got), format!("{:?}", want));
                }
            }
        }
        let want_end = if held == 0 { 0 } else { 64 - held.leading_zeros() as u64 };
        if s.end_or_0() != want_end && only.map_or(true, |o| "end_or_0()".starts_with(o)) {
            fail(ops, "end_or_0()".into(), s.end_or_0().to_string(), want_end.to_string());
        }
        let want_len = exp_gaps(!held, 0, M + 1).len();
        if s.len() != want_len && only.map_or(true, |o| "len()".starts_with(o)) {
            fail(ops, "len()".into(), s.len().to_string(), want_len.to_string());
        }
    });
    if r.is_err() {
        fail(ops, "panic".into(), "panicked".into(), "no panic".into());
    }
}

fn main() {
    let args: Vec<String> = std::env::args().collect();
    panic::set_hook(Box::new(|_| {}));
    if args.len() >= 3 && args[1] == "replay" {
        let ops: Vec<(u64, u64)> = args[2]
            .split(',')
            .filter(|t| !t.is_empty())
            .map(|t| {
                let mut p = t.split('-');
                (p.next().unwrap().parse().unwrap(), p.next().unwrap().parse().unwrap())
            })
            .collect();
        run(&ops, args.get(3).map(|s| s.as_str()));
        println!("{{\"kind\":\"segments\",\"result\":\"no disagreement on this case\"}}");
        return;
    }
    let kind: Option<String> = args.get(2).cloned();
    let kind = kind.as_deref();
    let mut segs = vec![];
    for a in 0..M {
        for b in a + 1..=M {
            segs.push((a, b));
        }
    }
    // all sequences of up to 3 segments
    run(&[], kind);
    for x in &segs {
        run(&[*x], kind);
    }
    for x in &segs {
        for y in &segs {
            run(&[*x, *y], kind);
        }
    }
    for x in &segs {
        for y in &segs {
            for z in &segs {
                run(&[*x, *y, *z], kind);
            }
        }
    }
    println!("{{\"kind\":\"segments\",\"result\":\"no disagreement within bound\",\"bound\":\"<=3 merges over 9 positions\"}}");
}
