//! pdu_replay <harness-name> <hex>      re-run a harness's check function on concrete input octets
//! pdu_replay search <harness-name> [n]  look for a failing input natively (corner patterns, then n
//!                                      pseudo-random inputs); prints `FOUND <hex> <outcome>` / `NONE`
//! pdu_replay list                      print "name K" for every harness
//! pdu_replay selftest-utf8             cross-check the UTF-8 validation stub against std
//!
//! Output: one line `OK accepted=<bool>` / `SKIP` / `MISMATCH: <obligation>` / `PANIC: <message> at
//! <file:line>`; exit status 0 for OK and SKIP, 1 for MISMATCH and PANIC, 2 for usage errors.
//! The check functions are the very same source files the Kani harness crate compiles.

#![allow(clippy::all)]
#[path = "../../../kani/core/src/util.rs"]
#[macro_use]
pub mod util;
#[path = "../../../kani/core/src/checks.rs"]
pub mod checks;
#[path = "../../../kani/core/src/dispatch.rs"]
pub mod dispatch;

use std::sync::Mutex;
use util::Outcome;

static LAST_PANIC: Mutex<String> = Mutex::new(String::new());

fn unhex(s: &str) -> Option<Vec<u8>> {
    let s: String = s.chars().filter(|c| !c.is_whitespace()).collect();
    if s.len() % 2 != 0 {
        return None;
    }
    (0..s.len() / 2)
        .map(|i| u8::from_str_radix(&s[2 * i..2 * i + 2], 16).ok())
        .collect()
}

fn selftest_utf8() -> i32 {
    let mut n: u64 = 0;
    let mut bad: u64 = 0;
    let mut check = |v: &[u8]| {
        n += 1;
        if util::simple_utf8_ok(v) != std::str::from_utf8(v).is_ok() {
            if bad < 10 {
                println!("DIFF on {:02x?}", v);
            }
            bad += 1;
        }
    };
    check(&[]);
    for a in 0..=255u8 {
        check(&[a]);
        for b in 0..=255u8 {
            check(&[a, b]);
            for c in 0..=255u8 {
                check(&[a, b, c]);
                if a >= 0x80 {
                    for d in (0..=255u8).step_by(1) {
                        if d < 0x70 && d % 16 != 0 {
                            continue;
                        }
                        check(&[a, b, c, d]);
                    }
                }
            }
        }
    }
    // pseudo-random longer strings, biased towards lead / continuation octets
    let mut x: u64 = 0x9E3779B97F4A7C15;
    let mut buf = [0u8; 12];
    for _ in 0..20_000_000u64 {
        x ^= x << 13;
        x ^= x >> 7;
        x ^= x << 17;
        let len = (x % 13) as usize;
        let mut y = x;
        for b in buf.iter_mut().take(len) {
            y = y.wrapping_mul(6364136223846793005).wrapping_add(1442695040888963407);
            let r = (y >> 33) as u8;
            *b = match (y >> 60) & 7 {
                0 | 1 => r & 0x7f,
                2 | 3 | 4 => 0x80 | (r & 0x3f),
                5 => 0xC0 | (r & 0x1f),
                6 => 0xE0 | (r & 0x0f),
                _ => 0xF0 | (r & 0x07),
            };
        }
        check(&buf[..len]);
    }
    println!("selftest-utf8: {} strings, {} differences", n, bad);
    if bad == 0 {
        0
    } else {
        1
    }
}

fn hex(v: &[u8]) -> String {
    v.iter().map(|b| format!("{:02x}", b)).collect()
}

/// One guarded execution: Some(description) if the check misbehaves on `inp`.
fn misbehaves(name: &str, inp: &[u8]) -> Option<String> {
    let n = name.to_string();
    let i = inp.to_vec();
    match std::panic::catch_unwind(move || dispatch::run(&n, &i)) {
        Err(_) => Some(format!("PANIC: {}", LAST_PANIC.lock().unwrap())),
        Ok(Some(Outcome::Mismatch(m))) => Some(format!("MISMATCH: {}", m)),
        _ => None,
    }
}

fn search(name: &str, n: u64) -> i32 {
    let k = match dispatch::HARNESSES.iter().find(|(h, _)| *h == name) {
        Some((_, k)) => *k,
        None => {
            eprintln!("unknown harness {}", name);
            return 2;
        }
    };
    install_hook();
    let mut cands: Vec<Vec<u8>> = vec![vec![0u8; k], vec![0xffu8; k], vec![0x01u8; k], vec![0x7fu8; k], vec![0x80u8; k]];
    for pos in 0..k.min(6) {
        for val in 0..=255u8 {
            let mut v = vec![0u8; k];
            v[pos] = val;
            cands.push(v.clone());
            let mut v = vec![0xffu8; k];
            v[pos] = val;
            cands.push(v);
        }
    }
    let mut x: u64 = 0x2545F4914F6CDD1D;
    for _ in 0..n {
        let mut v = vec![0u8; k];
        for b in v.iter_mut() {
            x ^= x << 13;
            x ^= x >> 7;
            x ^= x << 17;
            *b = (x >> 24) as u8;
        }
        cands.push(v);
    }
    for c in cands {
        if let Some(d) = misbehaves(name, &c) {
            println!("FOUND {} {}", hex(&c), d);
            return 0;
        }
    }
    println!("NONE");
    0
}

fn install_hook() {
    std::panic::set_hook(Box::new(|info| {
        let loc = info
            .location()
            .map(|l| format!("{}:{}", l.file(), l.line()))
            .unwrap_or_default();
        let msg = if let Some(s) = info.payload().downcast_ref::<&str>() {
            s.to_string()
        } else if let Some(s) = info.payload().downcast_ref::<String>() {
            s.clone()
        } else {
            "<non-string panic payload>".to_string()
        };
        *LAST_PANIC.lock().unwrap() = format!("{} at {}", msg, loc);
    }));
}

fn main() {
    let args: Vec<String> = std::env::args().collect();
    if args.len() == 2 && args[1] == "list" {
        for (n, k) in dispatch::HARNESSES {
            println!("{} {}", n, k);
        }
        return;
    }
    if args.len() == 2 && args[1] == "selftest-utf8" {
        std::process::exit(selftest_utf8());
    }
    if args.len() >= 3 && args[1] == "search" {
        std::process::exit(search(&args[2], args.get(3).and_then(|s| s.parse().ok()).unwrap_or(20000)));
    }
    if args.len() != 3 {
        eprintln!("usage: pdu_replay <harness-name> <hex> | search <harness-name> [n] | list | selftest-utf8");
        std::process::exit(2);
    }
    let name = args[1].clone();
    let mut input = match unhex(&args[2]) {
        Some(v) => v,
        None => {
            eprintln!("bad hex");
            std::process::exit(2);
        }
    };
    let k = match dispatch::HARNESSES.iter().find(|(n, _)| *n == name) {
        Some((_, k)) => *k,
        None => {
            eprintln!("unknown harness {}", name);
            std::process::exit(2);
        }
    };
    if input.len() < k {
        input.resize(k, 0);
    }
    install_hook();
    let inp = input.clone();
    let r = std::panic::catch_unwind(move || dispatch::run(&name, &inp));
    match r {
        Err(_) => {
            println!("PANIC: {}", LAST_PANIC.lock().unwrap());
            std::process::exit(1);
        }
        Ok(None) => {
            eprintln!("unknown harness");
            std::process::exit(2);
        }
        Ok(Some(Outcome::Pass { accepted })) => println!("OK accepted={}", accepted),
        Ok(Some(Outcome::Skip)) => println!("SKIP"),
        Ok(Some(Outcome::Mismatch(m))) => {
            println!("MISMATCH: {}", m);
            std::process::exit(1);
        }
    }
}
