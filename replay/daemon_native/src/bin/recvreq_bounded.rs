// BOUNDED check (not a proof) of the request handling of the real RecvTransaction (property C13: "within a transaction the requests run
// only after a successful delivery, once, in the order given, and after the first failure the rest are reported not-performed; the same
// responses reach the receiving user and the Finished PDU").  Stand-in for the Verus contract on finalize_receive when the loop has been
// restructured beyond what the extractor follows.
// For every list of up to N filestore requests over a small alphabet (create / delete / mkdir / rename on existing and missing names) a
// receive transaction is driven through process_pdu with Metadata (carrying the requests) and EOF of an empty file, in acknowledged mode;
// the Finished indication must carry exactly one response per request, in order, each naming its request's file names (that the Finished
// PDU carries the same list is the Verus obligation O-C13-forward; send_pdu is crate-private); up to and including the first failing response the responses are not "not performed", after it
// every response is the not-performed status of its action; and the directory tree shows that requests after the first failure had no effect.
//     recvreq_bounded search [N]     |     recvreq_bounded replay "create:a,delete:m,create:b"
use cfdp_core::daemon::{Indication, NakProcedure};
use cfdp_core::filestore::{ChecksumType, NativeFileStore};
use cfdp_core::pdu::*;
use cfdp_core::transaction::TransactionConfig;
use cfdp_daemon::transaction::RecvTransaction;
use std::collections::HashMap;
use std::sync::Arc;
use std::time::Duration;

fn config() -> TransactionConfig {
    TransactionConfig {
        source_entity_id: VariableID::from(1u16), destination_entity_id: VariableID::from(2u16), transmission_mode: TransmissionMode::Acknowledged,
        sequence_number: VariableID::from(3u16), file_size_flag: FileSizeFlag::Small, fault_handler_override: HashMap::new(), file_size_segment: 1024,
        crc_flag: CRCFlag::NotPresent, segment_metadata_flag: SegmentedData::NotPresent, max_count: 5, inactivity_timeout: 300, ack_timeout: 300, nak_timeout: 300,
    }
}

fn header(len: u16) -> PDUHeader {
    PDUHeader { version: U3::One, pdu_type: PDUType::FileDirective, direction: Direction::ToReceiver, transmission_mode: TransmissionMode::Acknowledged,
        crc_flag: CRCFlag::NotPresent, large_file_flag: FileSizeFlag::Small, pdu_data_field_length: len, segmentation_control: SegmentationControl::NotPreserved,
        segment_metadata_flag: SegmentedData::NotPresent, source_entity_id: VariableID::from(1u16), transaction_sequence_number: VariableID::from(3u16),
        destination_entity_id: VariableID::from(2u16) }
}

fn request(spec: &str) -> FileStoreRequest {
    let mut it = spec.split(':');
    let (act, n1, n2) = (it.next().unwrap_or(""), it.next().unwrap_or(""), it.next().unwrap_or(""));
    let code = match act { "create" => FileStoreAction::CreateFile, "delete" => FileStoreAction::DeleteFile, "mkdir" => FileStoreAction::CreateDirectory,
        "rename" => FileStoreAction::RenameFile, "rmdir" => FileStoreAction::RemoveDirectory, _ => FileStoreAction::DenyFile };
    FileStoreRequest { action_code: code, first_filename: n1.into(), second_filename: n2.into() }
}

async fn run_case(specs: &[String]) -> Result<(), String> {
    let dir = tempfile::TempDir::new().map_err(|e| e.to_string())?;
    std::fs::write(dir.path().join("e"), b"existing").unwrap();
    let fs = Arc::new(NativeFileStore::new(camino::Utf8Path::from_path(dir.path()).unwrap()));
    let (ind_tx, mut ind_rx) = tokio::sync::mpsc::channel(64);
    let mut t = RecvTransaction::new(config(), NakProcedure::Deferred(Duration::ZERO), fs.clone(), ind_tx);
    let reqs: Vec<FileStoreRequest> = specs.iter().map(|s| request(s)).collect();
    // a transaction without a file (empty names): only the filestore requests are to be executed after the (trivially complete) delivery
    let md = PDUPayload::Directive(Operations::Metadata(MetadataPDU { closure_requested: false, checksum_type: ChecksumType::Null, file_size: 0,
        source_filename: "".into(), destination_filename: "".into(), options: reqs.iter().map(|r| MetadataTLV::FileStoreRequest(r.clone())).collect() }));
    let h = header(md.encoded_len(FileSizeFlag::Small));
    t.process_pdu(PDU { header: h, payload: md }).map_err(|e| format!("process_pdu(metadata): {e}"))?;
    let eof = PDUPayload::Directive(Operations::EoF(EndOfFile { condition: Condition::NoError, checksum: 0, file_size: 0, fault_location: None }));
    let h = header(eof.encoded_len(FileSizeFlag::Small));
    t.process_pdu(PDU { header: h, payload: eof }).map_err(|e| format!("process_pdu(eof): {e}"))?;
    // the Finished indication (sent from a spawned task)
    let mut finished_ind = None;
    for _ in 0..50 {
        tokio::task::yield_now().await;
        while let Ok(i) = ind_rx.try_recv() { if let Indication::Finished(f) = i { finished_ind = Some(f); } }
        if finished_ind.is_some() { break; }
        tokio::time::sleep(Duration::from_millis(2)).await;
    }
    let ind = finished_ind.ok_or("INFRA: no Finished indication arrived")?;
    for (what, resp) in [("Finished indication", &ind.filestore_responses)] {
        if resp.len() != reqs.len() { return Err(format!("{what}: {} responses for {} requests: {:?}", resp.len(), reqs.len(), resp.iter().map(|r| format!("{:?}", r.action_and_status)).collect::<Vec<_>>())); }
        let mut failed = false;
        for (j, (rq, rs)) in reqs.iter().zip(resp.iter()).enumerate() {
            if rs.first_filename != rq.first_filename || rs.second_filename != rq.second_filename { return Err(format!("{what}: response {j} names {:?} {:?}, request {:?} {:?} (order / pairing)", rs.first_filename, rs.second_filename, rq.first_filename, rq.second_filename)); }
            let np = FileStoreStatus::get_not_performed(&rq.action_code);
            if failed { if rs.action_and_status != np { return Err(format!("{what}: response {j} is {:?} although an earlier request failed (expected {:?})", rs.action_and_status, np)); } }
            else { if rs.action_and_status == np { return Err(format!("{what}: response {j} is not-performed although no earlier request failed")); } failed = rs.action_and_status.is_fail(); }
        }
    }
    // effects: a request after the first failure must not have run (creating a name nothing before it created is the observable case)
    let mut failed = false;
    let mut made: Vec<String> = vec![];
    for (rq, rs) in reqs.iter().zip(ind.filestore_responses.iter()) {
        let creates = match rq.action_code { FileStoreAction::CreateFile | FileStoreAction::CreateDirectory => Some(rq.first_filename.as_str().to_string()),
            FileStoreAction::RenameFile => Some(rq.second_filename.as_str().to_string()), _ => None };
        if failed {
            if let Some(nm) = &creates { if nm.starts_with('n') && !made.contains(nm) && dir.path().join(nm).exists() {
                return Err(format!("request creating {nm:?} was executed although an earlier request had failed"));
            } }
        } else if !rs.action_and_status.is_fail() { if let Some(nm) = creates { made.push(nm); } }
        if rs.action_and_status.is_fail() { failed = true; }
    }
    Ok(())
}

fn out_fail(specs: &[String], e: &str, evals: u64) -> ! {
    let rc = if e.starts_with("INFRA") { 2 } else { 1 };
    println!("{{\"kind\":\"recvreq\",\"requests\":\"{}\",\"observed\":\"{}\",\"expected\":\"one response per request, in order, executed up to the first failure, not-performed after it, in the Finished indication\",\"evaluations\":{}}}",
        specs.join(","), e.replace('"', "'").replace('\\', "/"), evals);
    std::process::exit(rc)
}

#[tokio::main(flavor = "current_thread")]
async fn main() {
    let a: Vec<String> = std::env::args().collect();
    if a.len() >= 3 && a[1] == "replay" {
        let specs: Vec<String> = a[2].split(',').filter(|s| !s.is_empty()).map(|s| s.to_string()).collect();
        match run_case(&specs).await { Ok(()) => println!("{{\"kind\":\"recvreq\",\"result\":\"responses as specified for this list\"}}"), Err(e) => out_fail(&specs, &e, 1) }
        return;
    }
    let n: usize = a.get(2).and_then(|s| s.parse().ok()).unwrap_or(3);
    // alphabet: succeeds / fails on the fresh tree (e exists, m and n* do not)
    let alpha = ["create:n1", "create:n2", "create:e", "delete:e", "delete:m", "mkdir:n3", "rename:e:n4", "rename:m:n5"];
    let mut lists: Vec<Vec<String>> = vec![vec![]];
    let mut layer: Vec<Vec<String>> = vec![vec![]];
    for _ in 0..n { let mut next = vec![]; for l in &layer { for x in alpha { let mut m = l.clone(); m.push(x.to_string()); next.push(m); } } lists.extend(next.iter().cloned()); layer = next; }
    let mut evals = 0u64;
    for l in &lists {
        evals += 1;
        if let Err(e) = run_case(l).await { out_fail(l, &e, evals) }
    }
    println!("{{\"kind\":\"recvreq\",\"result\":\"responses as specified, within bound\",\"bound\":\"every list of <= {} requests over {} request kinds (succeeding and failing ones), file-less acknowledged-mode transaction driven through process_pdu, Finished indication observed\",\"evaluations\":{}}}", n, alpha.len(), evals);
}
