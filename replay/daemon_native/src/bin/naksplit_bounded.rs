// BOUNDED check (not a proof) of the NAK handling of the real `SendTransaction::process_pdu` (iterator chain + HashSet, outside
// Verus' subset): property C07 "a NAK for a range is answered with exactly the part of that range that lies inside the file (split to
// segment size) and nothing else".  Needs the crate built with --cfg cfdp_verif (hook verif_pending_requests).
// For every NAK list of up to N requests over offsets 0..=M (incl. inverted, empty, overlapping, repeated requests) and, optionally, a
// second NAK on top of the first, the queue afterwards must satisfy:
//   (1) no queued request is longer than the segment size, none is inverted;
//   (2) the bytes covered by the queue == the bytes covered by the proper (start < end) requests received so far;
//   (3) a marker request (start == end) is queued iff it was requested (the (0,0) marker = metadata);
//   (4) no request is queued twice.
//     naksplit_bounded search [N] [M]     | naksplit_bounded replay "0-0,0-4;6-10"   (requests a-b separated by ',', NAK PDUs by ';')
use cfdp_core::filestore::{ChecksumType, NativeFileStore};
use cfdp_core::pdu::*;
use cfdp_core::transaction::{Metadata, TransactionConfig};
use cfdp_daemon::transaction::SendTransaction;
use std::collections::{BTreeSet, HashMap};
use std::sync::Arc;

const SEG: u16 = 4;

fn config() -> TransactionConfig {
    TransactionConfig {
        source_entity_id: VariableID::from(1u16), destination_entity_id: VariableID::from(2u16), transmission_mode: TransmissionMode::Acknowledged,
        sequence_number: VariableID::from(3u16), file_size_flag: FileSizeFlag::Small, fault_handler_override: HashMap::new(), file_size_segment: SEG,
        crc_flag: CRCFlag::NotPresent, segment_metadata_flag: SegmentedData::NotPresent, max_count: 5, inactivity_timeout: 300, ack_timeout: 300, nak_timeout: 300,
    }
}

fn header() -> PDUHeader {
    PDUHeader { version: U3::One, pdu_type: PDUType::FileDirective, direction: Direction::ToSender, transmission_mode: TransmissionMode::Acknowledged,
        crc_flag: CRCFlag::NotPresent, large_file_flag: FileSizeFlag::Small, pdu_data_field_length: 0, segmentation_control: SegmentationControl::NotPreserved,
        segment_metadata_flag: SegmentedData::NotPresent, source_entity_id: VariableID::from(1u16), transaction_sequence_number: VariableID::from(3u16),
        destination_entity_id: VariableID::from(2u16) }
}

fn run_case(fs: &Arc<NativeFileStore>, paks: &[Vec<(u64, u64)>]) -> Result<(), String> {
    let (tx, _rx) = tokio::sync::mpsc::channel(64);
    let meta = Metadata { source_filename: "src.bin".into(), destination_filename: "dst.bin".into(), file_size: 16, filestore_requests: vec![],
        message_to_user: vec![], closure_requested: false, checksum_type: ChecksumType::Modular };
    let mut t = SendTransaction::new(config(), meta, fs.clone(), tx).map_err(|e| format!("new: {e}"))?;
    let mut bytes: BTreeSet<u64> = BTreeSet::new();
    let mut markers: BTreeSet<u64> = BTreeSet::new();
    for reqs in paks {
        let nak = NegativeAcknowledgmentPDU { start_of_scope: 0, end_of_scope: 16,
            segment_requests: reqs.iter().map(|(s, e)| SegmentRequestForm { start_offset: *s, end_offset: *e }).collect() };
        let pdu = PDU { header: header(), payload: PDUPayload::Directive(Operations::Nak(nak)) };
        t.process_pdu(pdu).map_err(|e| format!("process_pdu: {e}"))?;
        for (s, e) in reqs { if s < e { for b in *s..*e { bytes.insert(b); } } else if s == e { markers.insert(*s); } }
    }
    let q = t.verif_pending_requests();
    let mut qbytes = BTreeSet::new();
    let mut qmarkers = BTreeSet::new();
    let mut seen = BTreeSet::new();
    for (s, e) in &q {
        if s > e { return Err(format!("inverted request ({s},{e}) queued; queue {q:?}")); }
        if e - s > SEG as u64 { return Err(format!("request ({s},{e}) longer than the segment size {SEG}; queue {q:?}")); }
        if !seen.insert((*s, *e)) { return Err(format!("request ({s},{e}) queued twice; queue {q:?}")); }
        if s == e { qmarkers.insert(*s); } else { for b in *s..*e { qbytes.insert(b); } }
    }
    if qbytes != bytes { return Err(format!("queued byte ranges {:?} != requested {:?}; queue {q:?}", qbytes, bytes)); }
    if qmarkers != markers { return Err(format!("queued markers {:?} != requested {:?}; queue {q:?}", qmarkers, markers)); }
    Ok(())
}

fn fmt(paks: &[Vec<(u64, u64)>]) -> String {
    paks.iter().map(|p| p.iter().map(|(s, e)| format!("{s}-{e}")).collect::<Vec<_>>().join(",")).collect::<Vec<_>>().join(";")
}

#[tokio::main(flavor = "current_thread")]
async fn main() {
    let a: Vec<String> = std::env::args().collect();
    let dir = tempfile::TempDir::new().unwrap();
    std::fs::write(dir.path().join("src.bin"), (0u8..16).collect::<Vec<u8>>()).unwrap();
    let fs = Arc::new(NativeFileStore::new(camino::Utf8Path::from_path(dir.path()).unwrap()));
    if a.len() >= 3 && a[1] == "replay" {
        let paks: Vec<Vec<(u64, u64)>> = a[2].split(';').map(|p| p.split(',').filter(|x| !x.is_empty()).map(|r| { let mut i = r.split('-'); (i.next().unwrap().parse().unwrap(), i.next().unwrap().parse().unwrap()) }).collect()).collect();
        match run_case(&fs, &paks) {
            Ok(()) => println!("{{\"kind\":\"naksplit\",\"result\":\"queue as specified for this case\"}}"),
            Err(e) => { println!("{{\"kind\":\"naksplit\",\"naks\":\"{}\",\"observed\":\"{}\",\"expected\":\"bytes of the queue = bytes requested, split to <= {} octets, no duplicates, markers kept\"}}", fmt(&paks), e.replace('"', "'"), SEG); std::process::exit(1) }
        }
        return;
    }
    let n: usize = a.get(2).and_then(|s| s.parse().ok()).unwrap_or(2);
    let m: u64 = a.get(3).and_then(|s| s.parse().ok()).unwrap_or(10);
    let mut all = vec![];
    for s in 0..=m { for e in 0..=m { all.push((s, e)); } }
    let mut evals = 0u64;
    let mut lists: Vec<Vec<(u64, u64)>> = vec![vec![]];
    for x in &all { lists.push(vec![*x]); }
    if n >= 2 { for x in &all { for y in &all { lists.push(vec![*x, *y]); } } }
    for l in &lists {
        evals += 1;
        if let Err(e) = run_case(&fs, &[l.clone()]) {
            println!("{{\"kind\":\"naksplit\",\"naks\":\"{}\",\"observed\":\"{}\",\"expected\":\"bytes of the queue = bytes requested, split to <= {} octets, no duplicates, markers kept\",\"evaluations\":{}}}", fmt(&[l.clone()]), e.replace('"', "'"), SEG, evals);
            std::process::exit(1);
        }
    }
    // two successive NAK PDUs of one request each (second arrives while the first is still queued)
    for x in &all { for y in &all {
        evals += 1;
        let paks = vec![vec![*x], vec![*y]];
        if let Err(e) = run_case(&fs, &paks) {
            println!("{{\"kind\":\"naksplit\",\"naks\":\"{}\",\"observed\":\"{}\",\"expected\":\"bytes of the queue = bytes requested, split to <= {} octets, no duplicates, markers kept\",\"evaluations\":{}}}", fmt(&paks), e.replace('"', "'"), SEG, evals);
            std::process::exit(1);
        }
    } }
    println!("{{\"kind\":\"naksplit\",\"result\":\"no disagreement within bound\",\"bound\":\"segment size 4; every NAK list of <= {} requests over offsets 0..={} (inverted, empty, overlapping, repeated included); every pair of successive single-request NAKs\",\"evaluations\":{}}}", n, m, evals);
}
