// BOUNDED check (not a proof) of property C16 on the real `UdpTransport::receive`: each received datagram is decoded from its own
// bytes only.  A long datagram A is delivered first, then a datagram B; what `receive()` returns for B must be exactly what
// `PDU::decode` returns on B's bytes alone (Ok(the same PDU) or an error) - bytes of A left in the receive buffer must never complete B.
// B ranges over every corpus PDU, every truncation of every corpus PDU and every corpus PDU followed by 1..3 octets cut off a longer one;
// A is the longest corpus PDU (all-0xFF or all-0x00 file data, so that stale octets are "valid-looking" or zero).
// Loop-back UDP on 127.0.0.1, one datagram in flight at a time.
//     transport_bounded search [quick|thorough]   |   transport_bounded replay HEX_A HEX_B
use cfdp_core::filestore::ChecksumType;
use cfdp_core::pdu::*;
use cfdp_daemon::transport::{PDUTransport, UdpTransport};
use std::collections::HashMap;
use std::net::UdpSocket as StdSocket;
use std::time::Duration;

fn hex(b: &[u8]) -> String { b.iter().map(|x| format!("{:02x}", x)).collect() }
fn unhex(s: &str) -> Vec<u8> { (0..s.len() / 2).map(|i| u8::from_str_radix(&s[2 * i..2 * i + 2], 16).unwrap()).collect() }
fn id(w: u8, v: u64) -> VariableID { match w { 1 => VariableID::from(v as u8), 2 => VariableID::from(v as u16), 4 => VariableID::from(v as u32), _ => VariableID::from(v) } }

fn pdu(w: u8, crc: CRCFlag, flag: FileSizeFlag, p: PDUPayload) -> Vec<u8> {
    let t = match p { PDUPayload::Directive(_) => PDUType::FileDirective, PDUPayload::FileData(_) => PDUType::FileData };
    let h = PDUHeader { version: U3::One, pdu_type: t, direction: Direction::ToReceiver, transmission_mode: TransmissionMode::Acknowledged, crc_flag: crc, large_file_flag: flag,
        pdu_data_field_length: p.encoded_len(flag), segmentation_control: SegmentationControl::NotPreserved, segment_metadata_flag: SegmentedData::NotPresent,
        source_entity_id: id(w, 1), transaction_sequence_number: id(w, 2), destination_entity_id: id(w, 3) };
    PDU { header: h, payload: p }.encode()
}

fn corpus(thorough: bool) -> Vec<Vec<u8>> {
    let mut out = vec![];
    let widths: &[u8] = if thorough { &[1, 2, 4, 8] } else { &[1, 8] };
    for flag in [FileSizeFlag::Small, FileSizeFlag::Large] { for crc in [CRCFlag::NotPresent, CRCFlag::Present] { for &w in widths {
        let d = |o: Operations| PDUPayload::Directive(o);
        for p in [
            d(Operations::EoF(EndOfFile { condition: Condition::NoError, checksum: 0x1234_5678, file_size: 1000, fault_location: None })),
            d(Operations::EoF(EndOfFile { condition: Condition::CancelReceived, checksum: 7, file_size: 1000, fault_location: Some(id(w, 7)) })),
            d(Operations::Finished(Finished { condition: Condition::NoError, delivery_code: DeliveryCode::Complete, file_status: FileStatusCode::Retained, filestore_response: vec![], fault_location: None })),
            d(Operations::Ack(PositiveAcknowledgePDU { directive: PDUDirective::Finished, directive_subtype_code: ACKSubDirective::Finished, condition: Condition::NoError, transaction_status: TransactionStatus::Active })),
            d(Operations::Metadata(MetadataPDU { closure_requested: true, checksum_type: ChecksumType::Modular, file_size: 77, source_filename: "a/b".into(), destination_filename: "c".into(),
                options: vec![MetadataTLV::MessageToUser(MessageToUser { message_text: vec![1, 2, 3] })] })),
            d(Operations::Nak(NegativeAcknowledgmentPDU { start_of_scope: 0, end_of_scope: 500, segment_requests: vec![SegmentRequestForm { start_offset: 10, end_offset: 20 }, SegmentRequestForm { start_offset: 100, end_offset: 500 }] })),
            d(Operations::Prompt(PromptPDU { nak_or_keep_alive: NakOrKeepAlive::KeepAlive })),
            d(Operations::KeepAlive(KeepAlivePDU { progress: 4242 })),
            PDUPayload::FileData(FileDataPDU::Unsegmented(UnsegmentedFileData { offset: 64, file_data: vec![9, 8, 7, 6, 5, 4, 3, 2, 1, 0, 1, 2] })),
        ] { out.push(pdu(w, crc, flag, p)); }
    } } }
    out
}

struct Rig { rt: tokio::runtime::Runtime, transport: UdpTransport, to: std::net::SocketAddr, from: StdSocket }

fn rig() -> Rig {
    let rt = tokio::runtime::Builder::new_current_thread().enable_all().build().unwrap();
    let sock = rt.block_on(async { tokio::net::UdpSocket::bind("127.0.0.1:0").await.unwrap() });
    let to = sock.local_addr().unwrap();
    let transport = UdpTransport::try_from((sock, HashMap::new())).unwrap();
    let from = StdSocket::bind("127.0.0.1:0").unwrap();
    Rig { rt, transport, to, from }
}

/// what the transport hands out for one datagram: Some(Ok(pdu)), Some(Err) or None when nothing arrived in time
fn deliver(r: &mut Rig, bytes: &[u8]) -> Option<Result<PDU, String>> {
    r.from.send_to(bytes, r.to).unwrap();
    let t = &mut r.transport;
    r.rt.block_on(async { match tokio::time::timeout(Duration::from_secs(5), t.receive()).await { Ok(Ok(p)) => Some(Ok(p)), Ok(Err(e)) => Some(Err(e.to_string())), Err(_) => None } })
}

/// Ok(()) = fine; Err(observation)
fn judge(r: &mut Rig, a: &[u8], b: &[u8]) -> Result<(), String> {
    if deliver(r, a).is_none() { return Err("INFRA: datagram A not delivered on loop-back".into()); }
    let got = match deliver(r, b) { Some(g) => g, None => return Err("INFRA: datagram B not delivered on loop-back".into()) };
    let own = PDU::decode(&mut &b[..]);
    match (got, own) {
        (Ok(p), Ok(q)) => if p == q { Ok(()) } else { Err("receive() returned a different PDU than the datagram's own bytes decode to".into()) },
        (Err(_), Err(_)) => Ok(()),
        (Ok(p), Err(e)) => Err(format!("receive() accepted a datagram whose own bytes do not decode ({e}); it returned {:?}", p).chars().take(600).collect()),
        (Err(e), Ok(_)) => Err(format!("receive() rejected ({e}) a datagram that decodes on its own")),
    }
}

fn fail(a: &[u8], b: &[u8], msg: &str, evals: u64) -> ! {
    let rc = if msg.starts_with("INFRA") { 2 } else { 1 };
    println!("{{\"kind\":\"transport\",\"first\":\"{}\",\"second\":\"{}\",\"observed\":\"{}\",\"expected\":\"receive() == PDU::decode(bytes of that datagram only)\",\"evaluations\":{}}}",
        hex(a), hex(b), msg.replace('"', "'").replace('\\', "/"), evals);
    std::process::exit(rc)
}

fn main() {
    let a: Vec<String> = std::env::args().collect();
    let mut r = rig();
    if a.len() >= 4 && a[1] == "replay" {
        let (x, y) = (unhex(&a[2]), unhex(&a[3]));
        match judge(&mut r, &x, &y) { Ok(()) => println!("{{\"kind\":\"transport\",\"result\":\"receive() agrees with the datagram's own bytes\"}}"), Err(e) => fail(&x, &y, &e, 1) }
        return;
    }
    let thorough = a.get(2).map_or(false, |s| s == "thorough");
    let c = corpus(thorough);
    // the long first datagrams: file data of 200 octets of 0xFF / 0x00 / a repeating valid EOF body
    let longs: Vec<Vec<u8>> = [0xFFu8, 0x00, 0x05].iter().map(|&f| pdu(2, CRCFlag::NotPresent, FileSizeFlag::Small,
        PDUPayload::FileData(FileDataPDU::Unsegmented(UnsegmentedFileData { offset: 0, file_data: vec![f; 200] })))).collect();
    let mut evals = 0u64;
    for (i, good) in c.iter().enumerate() {
        let mut bs: Vec<Vec<u8>> = vec![good.clone()];
        for cut in 1..good.len() { bs.push(good[..cut].to_vec()); }
        // the stale tail is exactly what a longer version of the same PDU would have left: deliver `good` first, then its truncation
        for cut in 1..good.len() { evals += 1; if let Err(e) = judge(&mut r, good, &good[..cut]) { fail(good, &good[..cut], &e, evals) } }
        for b in &bs {
            let l = &longs[i % longs.len()];
            evals += 1;
            if let Err(e) = judge(&mut r, l, b) { fail(l, b, &e, evals) }
        }
    }
    println!("{{\"kind\":\"transport\",\"result\":\"every datagram was decoded from its own bytes, within bound\",\"bound\":\"{} corpus PDUs (every kind, both file-size flags, CRC on/off, id widths {}): each PDU and every truncation of it delivered after a longer datagram (the same PDU in full; 200 octets of 0xFF / 0x00 / 0x05 file data)\",\"evaluations\":{}}}",
        c.len(), if thorough { "1,2,4,8" } else { "1,8" }, evals);
}
