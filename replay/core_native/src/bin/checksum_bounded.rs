// BOUNDED check (not a proof) of the real `FileChecksum::checksum` against the CCSDS definition, under readers that return
// arbitrary short reads.  Exhaustive within the bound: every content length 0..=N (two content patterns each) x every split of
// the content into successive read sizes (all compositions of the length), plus lengths straddling the 8 KiB BufReader buffer
// with fixed short-read sizes.
//   checksum_bounded search [N]         -> first disagreement as JSON, exit 1 ; else a summary, exit 0
//   checksum_bounded replay HEX SIZES   -> re-run one case (SIZES = comma separated read sizes, cycled)
use cfdp_core::filestore::{ChecksumType, FileChecksum};
use std::io::{Read, Seek, SeekFrom};

struct Chunky { data: Vec<u8>, pos: usize, sizes: Vec<usize>, k: usize }
impl Read for Chunky {
    fn read(&mut self, buf: &mut [u8]) -> std::io::Result<usize> {
        if self.pos >= self.data.len() || buf.is_empty() { return Ok(0); }
        let want = if self.sizes.is_empty() { buf.len() } else { let s = self.sizes[self.k % self.sizes.len()]; self.k += 1; s.max(1) };
        let n = want.min(buf.len()).min(self.data.len() - self.pos);
        buf[..n].copy_from_slice(&self.data[self.pos..self.pos + n]);
        self.pos += n;
        Ok(n)
    }
}
impl Seek for Chunky {
    fn seek(&mut self, p: SeekFrom) -> std::io::Result<u64> {
        match p { SeekFrom::Start(o) => self.pos = o as usize, SeekFrom::Current(d) => self.pos = (self.pos as i64 + d) as usize, SeekFrom::End(d) => self.pos = (self.data.len() as i64 + d) as usize }
        self.k = 0;
        Ok(self.pos as u64)
    }
}

/// the CCSDS definition: 32-bit wrapping sum of the big-endian words of the zero-padded content
fn modsum(c: &[u8]) -> u32 {
    let mut s = 0u32;
    for (i, b) in c.iter().enumerate() { s = s.wrapping_add((*b as u32) << (8 * (3 - (i % 4)))); }
    s
}

fn hex(b: &[u8]) -> String { b.iter().map(|x| format!("{:02x}", x)).collect() }

fn case(data: &[u8], sizes: &[usize]) -> Option<(u32, u32)> {
    let mut r = Chunky { data: data.to_vec(), pos: 0, sizes: sizes.to_vec(), k: 0 };
    let got = r.checksum(ChecksumType::Modular).expect("io error from in-memory reader");
    let want = modsum(data);
    let mut r0 = Chunky { data: data.to_vec(), pos: 0, sizes: sizes.to_vec(), k: 0 };
    let null = r0.checksum(ChecksumType::Null).expect("io");
    if null != 0 { return Some((null, 0)); }
    if got != want { Some((got, want)) } else { None }
}

fn main() {
    let a: Vec<String> = std::env::args().collect();
    if a.len() >= 4 && a[1] == "replay" {
        let data: Vec<u8> = (0..a[2].len() / 2).map(|i| u8::from_str_radix(&a[2][2 * i..2 * i + 2], 16).unwrap()).collect();
        let sizes: Vec<usize> = a[3].split(',').filter(|s| !s.is_empty()).map(|s| s.parse().unwrap()).collect();
        match case(&data, &sizes) {
            Some((got, want)) => { println!("{{\"kind\":\"checksum\",\"content\":\"{}\",\"reads\":\"{}\",\"observed\":\"{:#010x}\",\"expected\":\"{:#010x}\"}}", a[2], a[3], got, want); std::process::exit(1) }
            None => println!("{{\"kind\":\"checksum\",\"result\":\"agrees with the CCSDS definition on this case\"}}"),
        }
        return;
    }
    let n: usize = a.get(2).and_then(|s| s.parse().ok()).unwrap_or(11);
    let mut evals = 0u64;
    for len in 0..=n {
        for pat in 0..2u8 {
            let data: Vec<u8> = (0..len).map(|i| if pat == 0 { (i as u8).wrapping_mul(37).wrapping_add(1) } else { 0xff - i as u8 }).collect();
            // all compositions of len: bit i of mask set = cut after byte i
            let cuts = if len == 0 { 1u64 } else { 1u64 << (len - 1) };
            for mask in 0..cuts {
                let mut sizes = vec![];
                let mut cur = 1usize;
                for i in 0..len.saturating_sub(1) { if mask >> i & 1 == 1 { sizes.push(cur); cur = 1; } else { cur += 1; } }
                if len > 0 { sizes.push(cur); }
                evals += 1;
                if let Some((got, want)) = case(&data, &sizes) {
                    let s: Vec<String> = sizes.iter().map(|x| x.to_string()).collect();
                    println!("{{\"kind\":\"checksum\",\"content\":\"{}\",\"reads\":\"{}\",\"observed\":\"{:#010x}\",\"expected\":\"{:#010x}\",\"evaluations\":{}}}", hex(&data), s.join(","), got, want, evals);
                    std::process::exit(1);
                }
            }
        }
    }
    // buffer boundary: 8191 / 8192 / 8193 / 16385 bytes with read sizes 1..9, 8191, 8193 (cycled)
    for len in [8190usize, 8191, 8192, 8193, 8194, 16385] {
        let data: Vec<u8> = (0..len).map(|i| (i as u32).wrapping_mul(2654435761).to_be_bytes()[0]).collect();
        for sizes in [vec![], vec![1], vec![2], vec![3], vec![5], vec![7], vec![9], vec![8191], vec![8193], vec![3, 8191], vec![4095, 2, 4097]] {
            evals += 1;
            if let Some((got, want)) = case(&data, &sizes) {
                let s: Vec<String> = sizes.iter().map(|x| x.to_string()).collect();
                println!("{{\"kind\":\"checksum\",\"content_len\":{},\"content\":\"{}\",\"reads\":\"{}\",\"observed\":\"{:#010x}\",\"expected\":\"{:#010x}\",\"evaluations\":{}}}", len, hex(&data), s.join(","), got, want, evals);
                std::process::exit(1);
            }
        }
    }
    println!("{{\"kind\":\"checksum\",\"result\":\"no disagreement within bound\",\"bound\":\"content length 0..={} x every split into read sizes (2 content patterns); lengths 8190..8194,16385 x 11 read-size schedules\",\"evaluations\":{}}}", n, evals);
}
