// BOUNDED check (not a proof) of property C15 on the real `PDU::decode`: with the CRC option on, a PDU hit after its 4 fixed header
// octets by an error pattern the CRC-16 is designed to catch is rejected or decodes to the original.
//   search [quick|thorough]  -> first accepted corruption as JSON (exit 1) or a summary (exit 0)
//   replay HEX_ORIGINAL HEX_CORRUPTED
// Families: (A) corpus of every directive / file-data kind x both file-size flags x CRC on: every single-bit flip, every two-bit flip
// within 16 bits, every burst of length <= 8 (all interior patterns) and sampled bursts of length 9..16, at every position after octet 4;
// (B) EOF/Finished with an error condition and a fault location: the burst that clears the condition nibble, for every 16-bit value
// of the low half of the EOF checksum (the decoder stops reading after the fields it needs, so the re-encoding gets shorter).
use cfdp_core::pdu::*;
use cfdp_core::filestore::ChecksumType;

fn hex(b: &[u8]) -> String { b.iter().map(|x| format!("{:02x}", x)).collect() }
fn unhex(s: &str) -> Vec<u8> { (0..s.len() / 2).map(|i| u8::from_str_radix(&s[2 * i..2 * i + 2], 16).unwrap()).collect() }

fn header(flag: FileSizeFlag, pdu_type: PDUType, len: u16, w: u8) -> PDUHeader {
    let id = |v: u64| match w { 1 => VariableID::from(v as u8), 2 => VariableID::from(v as u16), 4 => VariableID::from(v as u32), _ => VariableID::from(v) };
    PDUHeader {
        version: U3::One, pdu_type, direction: Direction::ToReceiver, transmission_mode: TransmissionMode::Acknowledged,
        crc_flag: CRCFlag::Present, large_file_flag: flag, pdu_data_field_length: len, segmentation_control: SegmentationControl::NotPreserved,
        segment_metadata_flag: SegmentedData::NotPresent, source_entity_id: id(1), transaction_sequence_number: id(2), destination_entity_id: id(3),
    }
}

fn pdu(flag: FileSizeFlag, w: u8, payload: PDUPayload) -> PDU {
    let len = payload.encoded_len(flag);
    let t = match payload { PDUPayload::Directive(_) => PDUType::FileDirective, PDUPayload::FileData(_) => PDUType::FileData };
    PDU { header: header(flag, t, len, w), payload }
}

fn corpus() -> Vec<PDU> {
    let mut v = vec![];
    for flag in [FileSizeFlag::Small, FileSizeFlag::Large] {
        for w in [1u8, 2, 8] {
            let d = |o: Operations| PDUPayload::Directive(o);
            v.push(pdu(flag, w, d(Operations::EoF(EndOfFile { condition: Condition::NoError, checksum: 0x1234_5678, file_size: 1000, fault_location: None }))));
            v.push(pdu(flag, w, d(Operations::EoF(EndOfFile { condition: Condition::CancelReceived, checksum: 7, file_size: 1000, fault_location: Some(VariableID::from(7u16)) }))));
            v.push(pdu(flag, w, d(Operations::Finished(Finished { condition: Condition::NoError, delivery_code: DeliveryCode::Complete, file_status: FileStatusCode::Retained, filestore_response: vec![], fault_location: None }))));
            v.push(pdu(flag, w, d(Operations::Finished(Finished { condition: Condition::FileChecksumFailure, delivery_code: DeliveryCode::Incomplete, file_status: FileStatusCode::Discarded, filestore_response: vec![], fault_location: Some(VariableID::from(9u8)) }))));
            v.push(pdu(flag, w, d(Operations::Ack(PositiveAcknowledgePDU { directive: PDUDirective::EoF, directive_subtype_code: ACKSubDirective::Other, condition: Condition::NoError, transaction_status: TransactionStatus::Active }))));
            v.push(pdu(flag, w, d(Operations::Metadata(MetadataPDU { closure_requested: true, checksum_type: ChecksumType::Modular, file_size: 77, source_filename: "a/b".into(), destination_filename: "c".into(), options: vec![MetadataTLV::MessageToUser(MessageToUser { message_text: vec![1, 2, 3] })] }))));
            v.push(pdu(flag, w, d(Operations::Nak(NegativeAcknowledgmentPDU { start_of_scope: 0, end_of_scope: 500, segment_requests: vec![SegmentRequestForm { start_offset: 10, end_offset: 20 }, SegmentRequestForm { start_offset: 100, end_offset: 500 }] }))));
            v.push(pdu(flag, w, d(Operations::Prompt(PromptPDU { nak_or_keep_alive: NakOrKeepAlive::KeepAlive }))));
            v.push(pdu(flag, w, d(Operations::KeepAlive(KeepAlivePDU { progress: 4242 }))));
            v.push(pdu(flag, w, PDUPayload::FileData(FileDataPDU::Unsegmented(UnsegmentedFileData { offset: 64, file_data: vec![9, 8, 7, 6, 5] }))));
        }
    }
    v
}

/// true = fine (rejected, or decodes to the original); false = accepted as a different PDU
fn judge(orig: &PDU, corrupted: &[u8]) -> bool {
    match std::panic::catch_unwind(|| PDU::decode(&mut &corrupted[..])) {
        Ok(Ok(p)) => &p == orig,
        Ok(Err(_)) => true,
        Err(_) => true, // a panic is property C06's business, not an acceptance
    }
}

fn report(orig: &PDU, good: &[u8], bad: &[u8], what: &str, evals: u64) -> ! {
    let got = PDU::decode(&mut &bad[..]);
    println!("{{\"kind\":\"crc_accept\",\"pattern\":\"{}\",\"original\":\"{}\",\"corrupted\":\"{}\",\"original_pdu\":\"{}\",\"observed\":\"accepted as {}\",\"expected\":\"rejected or equal to the original\",\"evaluations\":{}}}",
        what, hex(good), hex(bad), format!("{:?}", orig.payload).replace('"', "'"), format!("{:?}", got.map(|p| p.payload)).replace('"', "'"), evals);
    std::process::exit(1)
}

fn flip(buf: &mut [u8], bit: usize) { buf[bit / 8] ^= 0x80 >> (bit % 8); }

fn main() {
    std::panic::set_hook(Box::new(|_| {}));
    let a: Vec<String> = std::env::args().collect();
    if a.len() >= 4 && a[1] == "replay" {
        let good = unhex(&a[2]);
        let bad = unhex(&a[3]);
        let orig = PDU::decode(&mut &good[..]).expect("original must decode");
        if judge(&orig, &bad) { println!("{{\"kind\":\"crc_accept\",\"result\":\"rejected or equal to the original\"}}"); } else { report(&orig, &good, &bad, "replay", 1) }
        return;
    }
    let thorough = a.get(2).map_or(false, |s| s == "thorough");
    let mut evals = 0u64;
    // unaltered PDUs are accepted
    for p in corpus() {
        let good = p.clone().encode();
        evals += 1;
        if PDU::decode(&mut &good[..]).ok().as_ref() != Some(&p) { report(&p, &good, &good, "unaltered", evals) }
    }
    // (B) condition-nibble burst x all low 16 bits of the checksum
    for flag in [FileSizeFlag::Small, FileSizeFlag::Large] {
        for c in 0..=0xffffu32 {
            let p = pdu(flag, 2, PDUPayload::Directive(Operations::EoF(EndOfFile { condition: Condition::CancelReceived, checksum: c, file_size: 1000, fault_location: Some(VariableID::from(7u16)) })));
            let good = p.clone().encode();
            let mut bad = good.clone();
            let off = 4 + 6 + 1; // 4 fixed octets, three 2-byte ids, directive code
            bad[off] ^= 0xF0;
            evals += 1;
            if !judge(&p, &bad) { report(&p, &good, &bad, "burst of 4 bits on the EOF condition code", evals) }
        }
    }
    // (A) corpus sweeps
    let mut rng = 0x9e3779b97f4a7c15u64;
    for p in corpus() {
        let good = p.clone().encode();
        let nbits = good.len() * 8;
        for b in 32..nbits {
            let mut bad = good.clone();
            flip(&mut bad, b);
            evals += 1;
            if !judge(&p, &bad) { report(&p, &good, &bad, "single bit", evals) }
            for d in 1..16 {
                if b + d >= nbits { break; }
                let mut bad2 = bad.clone();
                flip(&mut bad2, b + d);
                evals += 1;
                if !judge(&p, &bad2) { report(&p, &good, &bad2, "two bits within 16", evals) }
            }
            // bursts: first and last bit set, interior pattern
            for len in 3..=16usize {
                if b + len > nbits { break; }
                let interior = len - 2;
                let count: u64 = if len <= 8 || thorough && len <= 11 { 1 << interior } else { 6 };
                for k in 0..count {
                    let pat: u64 = if count == 1 << interior { k } else { rng ^= rng << 13; rng ^= rng >> 7; rng ^= rng << 17; rng & ((1 << interior) - 1) };
                    let mut bad3 = bad.clone();
                    flip(&mut bad3, b + len - 1);
                    for i in 0..interior { if pat >> i & 1 == 1 { flip(&mut bad3, b + 1 + i); } }
                    evals += 1;
                    if !judge(&p, &bad3) { report(&p, &good, &bad3, "burst <= 16", evals) }
                }
            }
        }
    }
    println!("{{\"kind\":\"crc_accept\",\"result\":\"no accepted corruption within bound\",\"bound\":\"60 PDUs (10 kinds x 2 file-size flags x id widths 1,2,8), CRC on: all single-bit flips, all 2-bit flips within 16 bits, all bursts of length<=8 ({}) + sampled bursts up to 16, every position after octet 4; EOF(cancel)+fault location x 2^16 checksums x condition-nibble burst\",\"evaluations\":{}}}", if thorough { "<=11 thorough" } else { "quick" }, evals);
}
