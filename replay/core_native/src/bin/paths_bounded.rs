// BOUNDED check (not a proof) of property C12 on the real NativeFileStore: for every file or directory name of the enumeration, every
// filestore operation acts only on a path inside the configured root.
//   (P) pure part: lexical resolution ('.' dropped, '..' pops) of get_native_path(name) stays under the root, component-wise;
//   (E) effect part: every operation of the FileStore trait (and process_request for every action) is executed in a sandbox directory
//       <sandbox>/root next to sentinels <sandbox>/outside.txt, <sandbox>/outdir/keep.txt, <sandbox>/rootx/keep.txt; afterwards the
//       sentinels must be untouched, nothing new may exist next to the root, and no read (get_size, list_directory, open) may have
//       returned sentinel data.
// Names: up to N components from {"..", ".", "a", "d", "in.txt", "outside.txt", "outdir", "rootx"} joined by '/', with the prefixes
// "", "/", "//", "<root>/", "<root>", "<root>x/" ("merely starts with the root path"), "<root>/../", and optional trailing '/'.
//     paths_bounded search <sandbox-dir> [quick|thorough]   |   paths_bounded replay <sandbox-dir> <op> <name> [<name2>]
use cfdp_core::filestore::{FileStore, NativeFileStore};
use cfdp_core::pdu::{FileStoreAction, FileStoreRequest};
use std::fs;
use std::io::Read;
use std::path::{Component, Path, PathBuf};

const SENTINEL: &str = "SENTINEL-OUTSIDE-THE-ROOT-0123456789abcdefghijklmnopqrstuvwxyz-4242";

fn reset(sb: &Path) {
    let _ = fs::remove_dir_all(sb);
    fs::create_dir_all(sb.join("root/d")).unwrap();
    fs::write(sb.join("root/in.txt"), b"inside").unwrap();
    fs::write(sb.join("root/d/in.txt"), b"inside2").unwrap();
    fs::write(sb.join("outside.txt"), SENTINEL).unwrap();
    fs::create_dir_all(sb.join("outdir")).unwrap();
    fs::write(sb.join("outdir/keep.txt"), SENTINEL).unwrap();
    fs::create_dir_all(sb.join("rootx")).unwrap();
    fs::write(sb.join("rootx/keep.txt"), SENTINEL).unwrap();
}

/// None = sandbox intact; Some(what) = something outside the root was touched
fn outside_touched(sb: &Path) -> Option<String> {
    let mut names: Vec<String> = match fs::read_dir(sb) { Ok(r) => r.filter_map(|e| e.ok()).map(|e| e.file_name().to_string_lossy().into_owned()).collect(), Err(e) => return Some(format!("sandbox unreadable: {e}")) };
    names.sort();
    // (an operation on the empty name acts on the root directory itself, which is not outside the root: the root may be gone)
    names.retain(|n| n != "root");
    if names != ["outdir", "outside.txt", "rootx"] { return Some(format!("entries next to the root are now {:?}", names)); }
    for f in ["outside.txt", "outdir/keep.txt", "rootx/keep.txt"] {
        match fs::read(sb.join(f)) { Ok(c) if c == SENTINEL.as_bytes() => {}, Ok(_) => return Some(format!("{f} outside the root was modified")), Err(_) => return Some(format!("{f} outside the root was removed")) }
    }
    for d in ["outdir", "rootx"] {
        let n = fs::read_dir(sb.join(d)).map(|r| r.count()).unwrap_or(0);
        if n != 1 { return Some(format!("directory {d} outside the root now has {n} entries")); }
    }
    None
}

fn lexical(p: &Path) -> PathBuf {
    let mut out = PathBuf::new();
    for c in p.components() {
        match c { Component::CurDir => {}, Component::ParentDir => { out.pop(); }, other => out.push(other.as_os_str()) }
    }
    out
}

fn fail(op: &str, name: &str, name2: &str, observed: &str, evals: u64) -> ! {
    println!("{{\"kind\":\"paths\",\"op\":\"{}\",\"name\":\"{}\",\"name2\":\"{}\",\"observed\":\"{}\",\"expected\":\"the operation acts only inside the root\",\"evaluations\":{}}}",
        op, name.replace('"', "'"), name2.replace('"', "'"), observed.replace('"', "'"), evals);
    std::process::exit(1)
}

const OPS: [&str; 23] = ["native_path", "create_file", "delete_file", "create_directory", "remove_directory", "get_size", "list_directory", "open_read", "open_write",
    "rename_from", "rename_to", "append_to", "append_from", "replace_to", "replace_from",
    "req_create", "req_delete", "req_rename", "req_append", "req_replace", "req_mkdir", "req_rmdir", "req_deny"];

/// runs one operation; returns Some(observation) when it violates C12
fn run_op(sb: &Path, fs_: &NativeFileStore, root: &Path, op: &str, name: &str, name2: &str) -> Option<String> {
    let req = |a: FileStoreAction, n1: &str, n2: &str| FileStoreRequest { action_code: a, first_filename: n1.into(), second_filename: n2.into() };
    let mut leaked: Option<String> = None;
    match op {
        "native_path" => {
            let p = fs_.get_native_path(name);
            let l = lexical(p.as_std_path());
            if !l.starts_with(root) { return Some(format!("get_native_path -> {} which resolves to {} (outside {})", p, l.display(), root.display())); }
            return None;
        }
        "create_file" => { let _ = fs_.create_file(name); }
        "delete_file" => { let _ = fs_.delete_file(name); }
        "create_directory" => { let _ = fs_.create_directory(name); }
        "remove_directory" => { let _ = fs_.remove_directory(name); }
        "get_size" => { if let Ok(n) = fs_.get_size(name) { if n == SENTINEL.len() as u64 { leaked = Some(format!("get_size returned the size of a file outside the root ({n})")); } } }
        "list_directory" => { if let Ok(s) = fs_.list_directory(name) { if s.contains("outside.txt") || s.contains("keep.txt") || s.contains("rootx") { leaked = Some("list_directory listed entries outside the root".into()); } } }
        "open_read" => { if let Ok(mut f) = fs_.open(name, fs::OpenOptions::new().read(true)) { let mut s = String::new(); let _ = f.read_to_string(&mut s); if s.contains("SENTINEL") { leaked = Some("open(read) handed out a file outside the root".into()); } } }
        "open_write" => { let _ = fs_.open(name, fs::OpenOptions::new().create(true).write(true).truncate(true)); }
        "rename_from" => { let _ = fs_.rename_file(name, "renamed.tmp"); }
        "rename_to" => { let _ = fs_.rename_file("in.txt", name); }
        "append_to" => { let _ = fs_.append_file(name, "d/in.txt"); }
        "append_from" => { let _ = fs_.append_file("d/in.txt", name); if let Ok(c) = fs::read_to_string(root.join("d/in.txt")) { if c.contains("SENTINEL") { leaked = Some("append_file copied data from outside the root".into()); } } }
        "replace_to" => { let _ = fs_.replace_file(name, "d/in.txt"); }
        "replace_from" => { let _ = fs_.replace_file("d/in.txt", name); if let Ok(c) = fs::read_to_string(root.join("d/in.txt")) { if c.contains("SENTINEL") { leaked = Some("replace_file copied data from outside the root".into()); } } }
        "req_create" => { let _ = fs_.process_request(&req(FileStoreAction::CreateFile, name, "")); }
        "req_delete" => { let _ = fs_.process_request(&req(FileStoreAction::DeleteFile, name, "")); }
        "req_rename" => { let _ = fs_.process_request(&req(FileStoreAction::RenameFile, name, name2)); let _ = fs_.process_request(&req(FileStoreAction::RenameFile, "in.txt", name)); }
        "req_append" => { let _ = fs_.process_request(&req(FileStoreAction::AppendFile, name, name2)); }
        "req_replace" => { let _ = fs_.process_request(&req(FileStoreAction::ReplaceFile, name, name2)); }
        "req_mkdir" => { let _ = fs_.process_request(&req(FileStoreAction::CreateDirectory, name, "")); }
        "req_rmdir" => { let _ = fs_.process_request(&req(FileStoreAction::RemoveDirectory, name, "")); let _ = fs_.process_request(&req(FileStoreAction::DenyDirectory, name, "")); }
        "req_deny" => { let _ = fs_.process_request(&req(FileStoreAction::DenyFile, name, "")); }
        _ => panic!("unknown op {op}"),
    }
    if leaked.is_some() { return leaked; }
    outside_touched(sb)
}

fn names(root: &str, depth: usize) -> Vec<String> {
    let comps = ["..", ".", "a", "d", "in.txt", "outside.txt", "outdir", "rootx"];
    let mut bodies: Vec<String> = vec![String::new()];
    let mut layer: Vec<String> = vec![String::new()];
    for _ in 0..depth {
        let mut next = vec![];
        for b in &layer { for c in comps { next.push(if b.is_empty() { c.to_string() } else { format!("{b}/{c}") }); } }
        bodies.extend(next.iter().cloned());
        layer = next;
    }
    let prefixes = [String::new(), "/".into(), "//".into(), format!("{root}/"), root.to_string(), format!("{root}x/"), format!("{root}/../"), format!("{root}/./")];
    let mut out = vec![];
    for p in &prefixes { for b in &bodies { for t in ["", "/"] {
        if p == root && !b.is_empty() { out.push(format!("{p}{b}{t}")); }     // "<root>rootx/.." style names that merely start with the root string
        else { out.push(format!("{p}{b}{t}")); }
    } } }
    out.sort(); out.dedup();
    out
}

fn main() {
    let a: Vec<String> = std::env::args().collect();
    if a.len() < 3 { eprintln!("usage: paths_bounded search <sandbox> [quick|thorough] | replay <sandbox> <op> <name> [<name2>]"); std::process::exit(2); }
    let sb = PathBuf::from(&a[2]);
    reset(&sb);
    let sb = sb.canonicalize().unwrap();
    let root = sb.join("root");
    let root_s = root.to_str().unwrap().to_string();
    let store = NativeFileStore::new(root_s.as_str());
    if a[1] == "replay" {
        let name2 = a.get(5).cloned().unwrap_or_default();
        // names are stored with the sandbox root written as <root>
        let name = a[4].replace("<root>", &root_s);
        let name2 = name2.replace("<root>", &root_s);
        match run_op(&sb, &store, &root, &a[3], &name, &name2) {
            Some(obs) => { let _ = fs::remove_dir_all(&sb); fail(&a[3], &a[4], &name2, &obs, 1) }
            None => { let _ = fs::remove_dir_all(&sb); println!("{{\"kind\":\"paths\",\"result\":\"operation stayed inside the root\"}}"); return; }
        }
    }
    let thorough = a.get(3).map_or(false, |s| s == "thorough");
    let depth = if thorough { 4 } else { 3 };
    let all = names(&root_s, depth);
    let mut evals = 0u64;
    // (P) every name, pure
    for n in &all {
        evals += 1;
        if let Some(obs) = run_op(&sb, &store, &root, "native_path", n, "") { let _ = fs::remove_dir_all(&sb); fail("native_path", &n.replace(&root_s, "<root>"), "", &obs.replace(&root_s, "<root>"), evals) }
    }
    // (E) effects: every name x every operation (depth one less: the file system work dominates)
    let eff = names(&root_s, depth - 1);
    let seconds = ["d/in.txt", "../outside.txt", "outdir/new.txt"];
    let mut dirty = 0;
    for n in &eff {
        for op in OPS.iter().skip(1) {
            let n2s: &[&str] = if op.starts_with("req_") && ["req_rename", "req_append", "req_replace"].contains(op) { &seconds } else { &[""] };
            for n2 in n2s {
                evals += 1;
                if let Some(obs) = run_op(&sb, &store, &root, op, n, n2) { let _ = fs::remove_dir_all(&sb); fail(op, &n.replace(&root_s, "<root>"), n2, &obs.replace(&root_s, "<root>"), evals) }
                dirty += 1;
                if dirty >= 40 || !root.is_dir() { reset(&sb); dirty = 0; }
            }
        }
    }
    let _ = fs::remove_dir_all(&sb);
    println!("{{\"kind\":\"paths\",\"result\":\"every operation stayed inside the root, within bound\",\"bound\":\"{} names (<= {} components from 8 words x 8 prefixes x trailing slash) for get_native_path; {} names x {} operations executed in a sandbox with sentinels\",\"evaluations\":{}}}",
        all.len(), depth, eff.len(), OPS.len() - 1, evals);
}
