// BOUNDED check (not a proof) of the first sentence of property C13 on the real NativeFileStore::process_request: for every filestore
// request of a small enumeration, executed on a real directory tree in a sandbox,
//   (F) a request that reports a failure status changes nothing in the tree;
//   (S) a request that reports success has exactly the effect CFDP defines for its action, and changes nothing else:
//       CreateFile: the file did not exist, exists now and is empty        DeleteFile / DenyFile: the file is gone
//       RenameFile: the new name holds the old content, the old is gone    AppendFile: first = first ++ second, second untouched
//       ReplaceFile: first = content of second, second untouched          CreateDirectory: the directory exists (was absent), empty
//       RemoveDirectory / DenyDirectory: the directory and its content are gone
// (Which status a failing request reports, and whether a request whose preconditions hold always succeeds, is NOT checked: that would
// need a reference model of the status codes.)
// Names: a, b (files), d (directory), d/x (file in it), m (missing), plus aliases ./a, d/../a, /a of the first file.
//     fsreq_bounded search <sandbox-dir> [quick|thorough]   |   fsreq_bounded replay <sandbox-dir> <action> <first> [<second>]
use cfdp_core::filestore::{FileStore, NativeFileStore};
use cfdp_core::pdu::{FileStoreAction, FileStoreRequest};
use std::collections::BTreeMap;
use std::fs;
use std::path::{Path, PathBuf};

type Snap = BTreeMap<String, Option<Vec<u8>>>;     // relative path -> Some(content) for a file, None for a directory

fn reset(root: &Path) {
    let _ = fs::remove_dir_all(root);
    fs::create_dir_all(root.join("d")).unwrap();
    fs::write(root.join("a"), b"AAA").unwrap();
    fs::write(root.join("b"), b"BB").unwrap();
    fs::write(root.join("d/x"), b"X").unwrap();
}

fn snap(root: &Path) -> Snap {
    fn walk(root: &Path, dir: &Path, out: &mut Snap) {
        if let Ok(rd) = fs::read_dir(dir) {
            for e in rd.filter_map(|e| e.ok()) {
                let p = e.path();
                let rel = p.strip_prefix(root).unwrap().to_string_lossy().into_owned();
                if p.is_dir() { out.insert(rel, None); walk(root, &p, out); } else { out.insert(rel, Some(fs::read(&p).unwrap_or_default())); }
            }
        }
    }
    let mut out = Snap::new();
    walk(root, root, &mut out);
    out
}

/// the relative key a request name denotes ('.' and '..' resolved, leading '/' dropped)
fn key(name: &str) -> String {
    let mut parts: Vec<&str> = vec![];
    for c in name.split('/') { match c { "" | "." => {}, ".." => { parts.pop(); }, x => parts.push(x) } }
    parts.join("/")
}

const ACTIONS: [(&str, FileStoreAction); 9] = [("create", FileStoreAction::CreateFile), ("delete", FileStoreAction::DeleteFile), ("rename", FileStoreAction::RenameFile),
    ("append", FileStoreAction::AppendFile), ("replace", FileStoreAction::ReplaceFile), ("mkdir", FileStoreAction::CreateDirectory), ("rmdir", FileStoreAction::RemoveDirectory),
    ("denyfile", FileStoreAction::DenyFile), ("denydir", FileStoreAction::DenyDirectory)];

/// expected tree after a SUCCESSFUL request, or Err(why the success itself is wrong)
fn expected(action: &str, before: &Snap, k1: &str, k2: &str) -> Result<Snap, String> {
    let mut e = before.clone();
    let file = |s: &Snap, k: &str| -> Option<Vec<u8>> { s.get(k).cloned().flatten() };
    match action {
        "create" => { if before.contains_key(k1) { return Err(format!("CreateFile reported success although {k1} existed")); } e.insert(k1.into(), Some(vec![])); }
        "delete" | "denyfile" => { if file(before, k1).is_none() && action == "delete" { return Err(format!("DeleteFile reported success although {k1} is not a file")); } e.remove(k1); }
        "rename" => { let c = file(before, k1).ok_or(format!("RenameFile reported success although {k1} is not a file"))?; e.remove(k1); e.insert(k2.into(), Some(c)); }
        "append" => { let mut c = file(before, k1).ok_or(format!("AppendFile reported success although {k1} is not a file"))?;
            c.extend(file(before, k2).ok_or(format!("AppendFile reported success although {k2} is not a file"))?); e.insert(k1.into(), Some(c)); }
        "replace" => { file(before, k1).ok_or(format!("ReplaceFile reported success although {k1} is not a file"))?;
            let c = file(before, k2).ok_or(format!("ReplaceFile reported success although {k2} is not a file"))?; e.insert(k1.into(), Some(c)); }
        "mkdir" => { if before.contains_key(k1) { return Err(format!("CreateDirectory reported success although {k1} existed")); } e.insert(k1.into(), None); }
        "rmdir" | "denydir" => { let pre = format!("{k1}/"); e.retain(|k, _| k != k1 && !k.starts_with(&pre)); }
        _ => unreachable!(),
    }
    Ok(e)
}

fn show(s: &Snap) -> String { s.iter().map(|(k, v)| match v { Some(c) => format!("{k}={}", String::from_utf8_lossy(c)), None => format!("{k}/") }).collect::<Vec<_>>().join(" ") }

fn judge(root: &Path, store: &NativeFileStore, action: &str, n1: &str, n2: &str) -> Result<(), String> {
    let code = ACTIONS.iter().find(|(a, _)| *a == action).map(|(_, c)| c.clone()).ok_or("unknown action")?;
    let before = snap(root);
    let rep = store.process_request(&FileStoreRequest { action_code: code, first_filename: n1.into(), second_filename: n2.into() });
    let after = snap(root);
    if rep.action_and_status.is_fail() {
        if after != before { return Err(format!("status {:?} (a failure) but the tree changed: [{}] -> [{}]", rep.action_and_status, show(&before), show(&after))); }
        return Ok(());
    }
    let want = expected(action, &before, &key(n1), &key(n2)).map_err(|e| format!("{e} (status {:?})", rep.action_and_status))?;
    if after != want { return Err(format!("status {:?} (success) but the tree is [{}], expected [{}] (before: [{}])", rep.action_and_status, show(&after), show(&want), show(&before))); }
    Ok(())
}

fn fail(action: &str, pre: &str, n1: &str, n2: &str, msg: &str, evals: u64) -> ! {
    println!("{{\"kind\":\"fsreq\",\"action\":\"{}\",\"setup\":\"{}\",\"first\":\"{}\",\"second\":\"{}\",\"observed\":\"{}\",\"expected\":\"failure changes nothing; success has exactly the defined effect\",\"evaluations\":{}}}",
        action, pre, n1, n2, msg.replace('"', "'").replace('\\', "/"), evals);
    std::process::exit(1)
}

fn main() {
    let a: Vec<String> = std::env::args().collect();
    if a.len() < 3 { eprintln!("usage: fsreq_bounded search <sandbox> [quick|thorough] | replay <sandbox> <action> <first> [<second>] [<setup-action> <setup-first> <setup-second>]"); std::process::exit(2); }
    let sb = PathBuf::from(&a[2]);
    let _ = fs::remove_dir_all(&sb);
    fs::create_dir_all(&sb).unwrap();
    let sb = sb.canonicalize().unwrap();
    let root = sb.join("root");
    let store = NativeFileStore::new(root.to_str().unwrap());
    let names = ["a", "b", "d", "d/x", "m", "./a", "d/../a", "/a"];
    if a[1] == "replay" {
        reset(&root);
        let second = a.get(5).cloned().unwrap_or_default();
        if a.len() >= 9 { let _ = judge(&root, &store, &a[6], &a[7], &a[8]); }
        let r = judge(&root, &store, &a[3], &a[4], &second);
        let _ = fs::remove_dir_all(&sb);
        match r { Ok(()) => println!("{{\"kind\":\"fsreq\",\"result\":\"request behaved as defined\"}}"), Err(e) => fail(&a[3], "", &a[4], &second, &e, 1) }
        return;
    }
    let thorough = a.get(3).map_or(false, |s| s == "thorough");
    let mut evals = 0u64;
    // every single request on the initial tree
    let mut singles: Vec<(&str, &str, &str)> = vec![];
    for (act, _) in ACTIONS.iter() { for n1 in names { let seconds: &[&str] = if ["rename", "append", "replace"].contains(act) { &names } else { &[""] }; for n2 in seconds { singles.push((act, n1, n2)); } } }
    for (act, n1, n2) in &singles {
        reset(&root);
        evals += 1;
        if let Err(e) = judge(&root, &store, act, n1, n2) { let _ = fs::remove_dir_all(&sb); fail(act, "", n1, n2, &e, evals) }
    }
    // every request after one preceding request (thorough: all pairs; quick: the preceding request ranges over a sample)
    let step = if thorough { 1 } else { 7 };
    for (i, (pa, p1, p2)) in singles.iter().enumerate() {
        if i % step != 0 { continue; }
        for (act, n1, n2) in &singles {
            reset(&root);
            let _ = judge(&root, &store, pa, p1, p2);
            evals += 1;
            if let Err(e) = judge(&root, &store, act, n1, n2) { let _ = fs::remove_dir_all(&sb); fail(act, &format!("{pa} {p1} {p2}"), n1, n2, &e, evals) }
        }
    }
    let _ = fs::remove_dir_all(&sb);
    println!("{{\"kind\":\"fsreq\",\"result\":\"every request behaved as defined, within bound\",\"bound\":\"{} single requests (9 actions x 8 names, x 8 second names for rename/append/replace) on a fixed small tree, and each of them after {} preceding requests\",\"evaluations\":{}}}",
        singles.len(), (singles.len() + step - 1) / step, evals);
}
