// BOUNDED check (not a proof) of property C06 on the real decoders: never panics, and whatever is accepted is canonical
// (re-encode with the length field recomputed, decode again: same PDU).  Complements the Kani harnesses (complete proofs of the same
// arithmetic sites run in the thorough tier); this program is the every-change stand-in because it takes seconds.
//  (A) PDUHeader::decode / PDU::decode over ALL 2^16 length fields x all 256 first octets x fourth octets {0x00,0x11,0x33,0x77,0xff,0x08,0x80};
//  (B) VariableID::decode over all 256 length octets (followed by 0 / 8 / 256 octets);
//  (C) corpus of every PDU kind (both file-size flags, CRC on/off, id widths 1,2,4,8; incl. names / messages / TLV bodies of 254 and 255
//      octets): every truncation, every single-octet
//      mutation to {0,1,0x7f,0x80,0xfe,0xff, +1, -1, ^bit}, length/flag fields forced to boundary values;
//  (D) per-type decoders UserOperation / MetadataTLV / FileStoreRequest / FileStoreResponse / Report on all 1- and 2-octet inputs and on
//      a pseudo-random sample of longer ones.
//     decode_bounded search [quick|thorough]   |   decode_bounded replay HEX
use cfdp_core::daemon::Report;
use cfdp_core::filestore::ChecksumType;
use cfdp_core::pdu::*;
use std::panic;

fn hex(b: &[u8]) -> String { b.iter().map(|x| format!("{:02x}", x)).collect() }
fn unhex(s: &str) -> Vec<u8> { (0..s.len() / 2).map(|i| u8::from_str_radix(&s[2 * i..2 * i + 2], 16).unwrap()).collect() }

/// Ok(()) = fine; Err(what) = violation
fn judge_pdu(b: &[u8]) -> Result<(), String> {
    let r = panic::catch_unwind(|| PDU::decode(&mut &b[..]));
    match r {
        Err(_) => Err("PANIC in PDU::decode".into()),
        Ok(Err(_)) => Ok(()),
        Ok(Ok(p)) => {
            let mut q = p.clone();
            q.header.pdu_data_field_length = q.payload.encoded_len(q.header.large_file_flag);
            let enc = panic::catch_unwind(|| q.clone().encode());
            let enc = match enc { Ok(e) => e, Err(_) => return Err("PANIC in PDU::encode of an accepted PDU".into()) };
            if enc.len() != q.encoded_len() as usize + if q.header.crc_flag == CRCFlag::Present { 2 } else { 0 } {
                return Err(format!("accepted PDU: encoded_len {} but encode() gives {} octets", q.encoded_len(), enc.len()));
            }
            match panic::catch_unwind(|| PDU::decode(&mut &enc[..])) {
                Err(_) => Err("PANIC decoding the re-encoding of an accepted PDU".into()),
                Ok(Err(e)) => Err(format!("accepted PDU is not canonical: its re-encoding is rejected ({e})")),
                Ok(Ok(p2)) => if p2 == q { Ok(()) } else { Err("accepted PDU is not canonical: re-encoding decodes to a different PDU".into()) },
            }
        }
    }
}

fn fail(what: &str, input: &[u8], msg: &str, evals: u64) -> ! {
    println!("{{\"kind\":\"decode\",\"decoder\":\"{}\",\"input\":\"{}\",\"observed\":\"{}\",\"expected\":\"Ok(canonical PDU) or Err, no panic\",\"evaluations\":{}}}", what, hex(input), msg.replace('"', "'"), evals);
    std::process::exit(1)
}

fn id(w: u8, v: u64) -> VariableID { match w { 1 => VariableID::from(v as u8), 2 => VariableID::from(v as u16), 4 => VariableID::from(v as u32), _ => VariableID::from(v) } }

fn corpus() -> Vec<Vec<u8>> {
    let mut out = vec![];
    for flag in [FileSizeFlag::Small, FileSizeFlag::Large] { for crc in [CRCFlag::NotPresent, CRCFlag::Present] { for w in [1u8, 2, 4, 8] {
        let d = |o: Operations| PDUPayload::Directive(o);
        let payloads = vec![
            d(Operations::EoF(EndOfFile { condition: Condition::NoError, checksum: 0x1234_5678, file_size: 1000, fault_location: None })),
            d(Operations::EoF(EndOfFile { condition: Condition::CancelReceived, checksum: 7, file_size: 1000, fault_location: Some(id(w, 7)) })),
            d(Operations::Finished(Finished { condition: Condition::NoError, delivery_code: DeliveryCode::Complete, file_status: FileStatusCode::Retained,
                filestore_response: vec![FileStoreResponse { action_and_status: FileStoreStatus::CreateFile(CreateFileStatus::Successful), first_filename: "a".into(), second_filename: "".into(), filestore_message: vec![1] }], fault_location: None })),
            d(Operations::Finished(Finished { condition: Condition::FileChecksumFailure, delivery_code: DeliveryCode::Incomplete, file_status: FileStatusCode::Discarded, filestore_response: vec![], fault_location: Some(id(w, 9)) })),
            d(Operations::Ack(PositiveAcknowledgePDU { directive: PDUDirective::Finished, directive_subtype_code: ACKSubDirective::Finished, condition: Condition::NoError, transaction_status: TransactionStatus::Active })),
            d(Operations::Metadata(MetadataPDU { closure_requested: true, checksum_type: ChecksumType::Modular, file_size: 77, source_filename: "a/b".into(), destination_filename: "c".into(),
                options: vec![MetadataTLV::MessageToUser(MessageToUser { message_text: vec![1, 2, 3] }), MetadataTLV::FileStoreRequest(FileStoreRequest { action_code: FileStoreAction::RenameFile, first_filename: "x".into(), second_filename: "y".into() }),
                    MetadataTLV::EntityID(id(w, 5)), MetadataTLV::FlowLabel(FlowLabel { value: vec![9] }), MetadataTLV::FaultHandlerOverride(FaultHandlerOverride { fault_handler_code: HandlerCode::IgnoreError })] })),
            d(Operations::Nak(NegativeAcknowledgmentPDU { start_of_scope: 0, end_of_scope: 500, segment_requests: vec![SegmentRequestForm { start_offset: 10, end_offset: 20 }, SegmentRequestForm { start_offset: 100, end_offset: 500 }] })),
            d(Operations::Prompt(PromptPDU { nak_or_keep_alive: NakOrKeepAlive::KeepAlive })),
            d(Operations::KeepAlive(KeepAlivePDU { progress: 4242 })),
            PDUPayload::FileData(FileDataPDU::Unsegmented(UnsegmentedFileData { offset: 64, file_data: vec![9, 8, 7, 6, 5] })),
        ];
        for p in payloads {
            let t = match p { PDUPayload::Directive(_) => PDUType::FileDirective, PDUPayload::FileData(_) => PDUType::FileData };
            let h = PDUHeader { version: U3::One, pdu_type: t, direction: Direction::ToReceiver, transmission_mode: TransmissionMode::Acknowledged, crc_flag: crc, large_file_flag: flag,
                pdu_data_field_length: p.encoded_len(flag), segmentation_control: SegmentationControl::NotPreserved, segment_metadata_flag: SegmentedData::NotPresent,
                source_entity_id: id(w, 1), transaction_sequence_number: id(w, 2), destination_entity_id: id(w, 3) };
            out.push(PDU { header: h, payload: p }.encode());
        }
        // boundary-length fields: names, messages and TLV bodies at 254/255 octets (a length octet that wraps on re-encoding shows up here)
        if w == 1 || w == 8 {
            let long_a: String = std::iter::repeat('n').take(255).collect();
            let long_b: String = std::iter::repeat('m').take(254).collect();
            let longs = vec![
                d(Operations::Metadata(MetadataPDU { closure_requested: false, checksum_type: ChecksumType::Modular, file_size: 1, source_filename: long_a.as_str().into(), destination_filename: long_b.as_str().into(), options: vec![] })),
                d(Operations::Metadata(MetadataPDU { closure_requested: false, checksum_type: ChecksumType::Null, file_size: 0, source_filename: "s".into(), destination_filename: "d".into(),
                    options: vec![MetadataTLV::MessageToUser(MessageToUser { message_text: vec![0x41; 255] }), MetadataTLV::FlowLabel(FlowLabel { value: vec![7; 255] }),
                        MetadataTLV::FileStoreRequest(FileStoreRequest { action_code: FileStoreAction::CreateFile, first_filename: long_b.as_str().into(), second_filename: "".into() })] })),
                d(Operations::Finished(Finished { condition: Condition::NoError, delivery_code: DeliveryCode::Complete, file_status: FileStatusCode::Retained,
                    filestore_response: vec![FileStoreResponse { action_and_status: FileStoreStatus::RenameFile(RenameStatus::Successful), first_filename: std::iter::repeat('p').take(120).collect::<String>().as_str().into(),
                        second_filename: std::iter::repeat('q').take(120).collect::<String>().as_str().into(), filestore_message: vec![1, 2, 3] }], fault_location: None })),
            ];
            for p in longs {
                let h = PDUHeader { version: U3::One, pdu_type: PDUType::FileDirective, direction: Direction::ToReceiver, transmission_mode: TransmissionMode::Acknowledged, crc_flag: crc, large_file_flag: flag,
                    pdu_data_field_length: p.encoded_len(flag), segmentation_control: SegmentationControl::NotPreserved, segment_metadata_flag: SegmentedData::NotPresent,
                    source_entity_id: id(w, 1), transaction_sequence_number: id(w, 2), destination_entity_id: id(w, 3) };
                out.push(PDU { header: h, payload: p }.encode());
            }
        }
        // segmented file data
        let p = PDUPayload::FileData(FileDataPDU::Segmented(SegmentedFileData { record_continuation_state: RecordContinuationState::First, segment_metadata: vec![1, 2], offset: 3, file_data: vec![4, 5] }));
        let h = PDUHeader { version: U3::One, pdu_type: PDUType::FileData, direction: Direction::ToReceiver, transmission_mode: TransmissionMode::Unacknowledged, crc_flag: crc, large_file_flag: flag,
            pdu_data_field_length: p.encoded_len(flag), segmentation_control: SegmentationControl::Preserved, segment_metadata_flag: SegmentedData::Present,
            source_entity_id: id(w, 1), transaction_sequence_number: id(w, 2), destination_entity_id: id(w, 3) };
        out.push(PDU { header: h, payload: p }.encode());
    } } }
    out
}

fn main() {
    panic::set_hook(Box::new(|_| {}));
    let a: Vec<String> = std::env::args().collect();
    if a.len() >= 3 && a[1] == "replay" {
        let b = unhex(&a[2]);
        match judge_pdu(&b) { Ok(()) => println!("{{\"kind\":\"decode\",\"result\":\"Ok(canonical) or Err, no panic\"}}"), Err(e) => fail("PDU::decode", &b, &e, 1) }
        return;
    }
    let thorough = a.get(2).map_or(false, |s| s == "thorough");
    let mut evals = 0u64;
    // (A) every length field x first octet x a grid of fourth octets
    let fourth: Vec<u8> = if thorough { (0..=255u8).collect() } else { vec![0x00, 0x11, 0x33, 0x77, 0xff, 0x08, 0x80] };
    let mut buf = vec![0u8; 4 + 24 + 4];
    for first in 0..=255u8 { for f4 in &fourth { for len in 0..=0xffffu16 {
        if !thorough && first & 0xE0 != 0x20 && len > 64 && len < 0xff00 && len % 257 != 0 { continue; }
        buf[0] = first; buf[1..3].copy_from_slice(&len.to_be_bytes()); buf[3] = *f4;
        evals += 1;
        if panic::catch_unwind(|| PDUHeader::decode(&mut &buf[..])).is_err() { fail("PDUHeader::decode", &buf, "PANIC", evals) }
        if len < 40 { if let Err(e) = judge_pdu(&buf) { fail("PDU::decode", &buf, &e, evals) } }
    } } }
    // (B) VariableID::decode on every length octet
    for l in 0..=255u8 { for tail in [0usize, 8, 256] {
        let mut b = vec![l]; b.extend(std::iter::repeat(0xA5).take(tail));
        evals += 1;
        if panic::catch_unwind(|| VariableID::decode(&mut &b[..])).is_err() { fail("VariableID::decode", &b, "PANIC", evals) }
    } }
    // (C) corpus: truncations and single-octet mutations
    for good in corpus() {
        evals += 1;
        if let Err(e) = judge_pdu(&good) { fail("PDU::decode (valid corpus PDU)", &good, &e, evals) }
        if PDU::decode(&mut &good[..]).is_err() { fail("PDU::decode (valid corpus PDU)", &good, "a valid PDU was rejected", evals) }
        for cut in 0..good.len() { evals += 1; if let Err(e) = judge_pdu(&good[..cut]) { fail("PDU::decode (truncation)", &good[..cut], &e, evals) } }
        for i in 0..good.len() {
            let o = good[i];
            let mut vals = vec![0u8, 1, 0x7f, 0x80, 0xfe, 0xff, o.wrapping_add(1), o.wrapping_sub(1)];
            for bit in 0..8 { vals.push(o ^ (1 << bit)); }
            if thorough { vals = (0..=255u8).collect(); }
            for v in vals { if v == o { continue; } let mut m = good.clone(); m[i] = v; evals += 1; if let Err(e) = judge_pdu(&m) { fail("PDU::decode (single-octet mutation)", &m, &e, evals) } }
        }
    }
    // (D) per-type decoders: no panic
    let mut rng = 0x2545F4914F6CDD1Du64;
    let mut inputs: Vec<Vec<u8>> = vec![vec![]];
    for x in 0..=255u8 { inputs.push(vec![x]); for y in [0u8, 1, 2, 0x7f, 0xff] { inputs.push(vec![x, y]); inputs.push(vec![b'c', b'f', b'd', b'p', x, y, 0, 1, 2]); } }
    for _ in 0..(if thorough { 2_000_000 } else { 200_000 }) {
        rng ^= rng << 13; rng ^= rng >> 7; rng ^= rng << 17;
        let n = (rng % 24) as usize;
        let mut v = Vec::with_capacity(n);
        let mut r = rng;
        for _ in 0..n { r = r.wrapping_mul(6364136223846793005).wrapping_add(1442695040888963407); v.push((r >> 33) as u8 & if r & 1 == 0 { 0x0f } else { 0xff }); }
        inputs.push(v);
    }
    for b in &inputs {
        evals += 1;
        if panic::catch_unwind(|| { let _ = UserOperation::decode(&mut &b[..]); let _ = MetadataTLV::decode(&mut &b[..]); let _ = FileStoreRequest::decode(&mut &b[..]);
            let _ = FileStoreResponse::decode(&mut &b[..]); let _ = Report::decode(&mut &b[..]); let _ = Finished::decode(&mut &b[..]);
            let _ = MetadataPDU::decode(&mut &b[..], FileSizeFlag::Small); let _ = Operations::decode(&mut &b[..], FileSizeFlag::Large); }).is_err() {
            fail("per-type decoder", b, "PANIC", evals)
        }
    }
    println!("{{\"kind\":\"decode\",\"result\":\"no panic, everything accepted is canonical, within bound\",\"bound\":\"all 2^16 length fields x 256 first octets x {} fourth octets (header; PDU::decode for lengths < 40); 256 id length octets; {} corpus PDUs x every truncation x {} single-octet mutations; {} per-type decoder inputs\",\"evaluations\":{}}}",
        fourth.len(), corpus().len(), if thorough { "all 255" } else { "16" }, inputs.len(), evals);
}
