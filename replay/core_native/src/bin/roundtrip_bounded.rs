// BOUNDED check (not a proof) of the round-trip property on the real codec: every well-formed value survives encode then decode
// unchanged, and the length announced in advance (encoded_len) is the number of octets encode produces (+2 for a PDU with CRC).
// Deterministic enumeration; every evaluation has a stable number (the "case index") so that a failure can be replayed.
//  (H) PDUHeader: all 16 (entity width, sequence width) x CRC x file size flag x mode x direction x type x segmentation control x
//      segment metadata flag x id values {0,1,max}^3 x versions x length fields at the boundaries;
//  (P) payloads: EndOfFile / Finished / Ack / Metadata / Nak / Prompt / KeepAlive / unsegmented and segmented file data, exhaustive on
//      their enumerated fields (conditions, delivery codes, file status, every filestore status, every TLV kind, ...), boundary sizes and
//      offsets for both file size flags, each checked at its own type, as Operations / FileDataPDU, and as a full PDU (CRC on/off,
//      equal and MIXED id widths in the header);
//  (L) leaf types: VariableID, FlowLabel, MessageToUser, FaultHandlerOverride, TransmissionMode, SegmentRequestForm, FileStoreRequest,
//      FileStoreResponse, MetadataTLV;
//  (U) every UserOperation variant (its own codec, the codec of the inner struct, and carried as a message to user inside a Metadata PDU);
//      types with private fields (SFORequest, SFOReport, ProxySegmentationControl) are built by decoding their hand-assembled wire form;
//  (R) daemon::Report: every state x status x condition x id widths x id values.
// Only values the encoder represents faithfully are generated (sizes <= u32::MAX with the small flag, LV fields <= 255 octets,
// fault location absent iff NoError for EOF, NoError Finished without fault location, equal widths for source/destination entity ids).
//     roundtrip_bounded search [quick|thorough]   |   roundtrip_bounded replay CASE [quick|thorough]
use cfdp_core::daemon::Report;
use cfdp_core::filestore::ChecksumType;
use cfdp_core::pdu::*;
use cfdp_core::transaction::{TransactionID, TransactionState};
use std::collections::BTreeMap;
use std::fmt::Debug;
use std::panic::{self, AssertUnwindSafe};

type Verdict = Result<(), (Vec<u8>, String)>;

fn hex(b: &[u8]) -> String {
    let mut s: String = b.iter().take(1024).map(|x| format!("{:02x}", x)).collect();
    if b.len() > 1024 { s.push_str(&format!("...(+{} octets)", b.len() - 1024)); }
    s
}
fn clean(s: &str, n: usize) -> String { s.chars().take(n).collect::<String>().replace('\\', "/").replace('"', "'").replace('\n', " ") }

fn fail(case: u64, ty: &str, value: &str, enc: &[u8], observed: &str, evals: u64) -> ! {
    println!("{{\"kind\":\"roundtrip\",\"case\":{},\"type\":\"{}\",\"value\":\"{}\",\"encoding\":\"{}\",\"observed\":\"{}\",\"expected\":\"decode(encode(x)) == x and encoded_len == len\",\"evaluations\":{}}}",
        case, ty, clean(value, 400), hex(enc), clean(observed, 600), evals);
    std::process::exit(1)
}

fn attempt<R>(f: impl FnOnce() -> R) -> Result<R, ()> { panic::catch_unwind(AssertUnwindSafe(f)).map_err(|_| ()) }

struct Ctx { next: u64, target: Option<u64>, evals: u64, thorough: bool, pk: u64, counts: BTreeMap<&'static str, u64> }
impl Ctx {
    /// numbers the next case; Some(index) when it has to be evaluated (always in search, only the requested one in replay)
    fn take(&mut self, ty: &'static str) -> Option<u64> {
        let c = self.next;
        self.next += 1;
        if let Some(t) = self.target { if t != c { return None; } }
        self.evals += 1;
        *self.counts.entry(ty).or_insert(0) += 1;
        Some(c)
    }
    fn done(&self, case: u64, ty: &str, prefix: &str, v: &dyn Debug, r: Verdict) {
        match r {
            Err((enc, obs)) => fail(case, ty, &format!("{}{:?}", prefix, v), &enc, &obs, self.evals),
            Ok(()) => if self.target == Some(case) {
                println!("{{\"kind\":\"roundtrip\",\"result\":\"case holds\",\"case\":{},\"type\":\"{}\"}}", case, ty);
                std::process::exit(0)
            }
        }
    }
}

/// the property itself, on one value
fn judge<T: Clone + PartialEq + Debug>(v: &T, enc: &dyn Fn(T) -> Vec<u8>, len: Option<&dyn Fn(&T) -> usize>, dec: &dyn Fn(&[u8]) -> Result<T, String>) -> Verdict {
    let bytes = match attempt(|| enc(v.clone())) { Ok(b) => b, Err(_) => return Err((vec![], "PANIC in encode".into())) };
    if let Some(len) = len {
        match attempt(|| len(v)) {
            Err(_) => return Err((bytes, "PANIC in encoded_len".into())),
            Ok(n) => if n != bytes.len() { let m = bytes.len(); return Err((bytes, format!("length announced in advance is {} octets but encode produced {}", n, m))); }
        }
    }
    match attempt(|| dec(&bytes)) {
        Err(_) => Err((bytes, "PANIC in decode of the encoding".into())),
        Ok(Err(e)) => Err((bytes, format!("decode rejected the encoding: {}", e))),
        Ok(Ok(d)) => if &d == v { Ok(()) } else { Err((bytes, format!("decoded value differs from the original: {:?}", d))) },
    }
}

fn fname(f: FileSizeFlag) -> &'static str { match f { FileSizeFlag::Small => "[small file size] ", FileSizeFlag::Large => "[large file size] " } }

fn ck_p<T>(ctx: &mut Ctx, ty: &'static str, v: T) where T: PDUEncode<PDUType = T> + Clone + PartialEq + Debug {
    let Some(case) = ctx.take(ty) else { return };
    let r = judge(&v, &|x: T| <T as PDUEncode>::encode(x), Some(&|x: &T| <T as PDUEncode>::encoded_len(x) as usize),
        &|b: &[u8]| { let mut s = b; <T as PDUEncode>::decode(&mut s).map_err(|e| e.to_string()) });
    ctx.done(case, ty, "", &v, r);
}
/// VariableID only: its encoded_len is by design the width of the value (the header and the user operations use it that way with
/// to_be_bytes), while encode() is the length-prefixed LV form, one octet longer; the length is therefore compared with width + 1
fn ck_id(ctx: &mut Ctx, v: VariableID) {
    let Some(case) = ctx.take("VariableID") else { return };
    let r = judge(&v, &|x: VariableID| x.encode(), Some(&|x: &VariableID| x.encoded_len() as usize + 1), &|b: &[u8]| { let mut s = b; VariableID::decode(&mut s).map_err(|e| e.to_string()) });
    ctx.done(case, "VariableID", "", &v, r);
}
fn ck_f<T>(ctx: &mut Ctx, ty: &'static str, v: T, flag: FileSizeFlag) where T: FSSEncode<PDUType = T> + Clone + PartialEq + Debug {
    let Some(case) = ctx.take(ty) else { return };
    let r = judge(&v, &|x: T| <T as FSSEncode>::encode(x, flag), Some(&|x: &T| <T as FSSEncode>::encoded_len(x, flag) as usize),
        &|b: &[u8]| { let mut s = b; <T as FSSEncode>::decode(&mut s, flag).map_err(|e| e.to_string()) });
    ctx.done(case, ty, fname(flag), &v, r);
}
fn ck_fd(ctx: &mut Ctx, v: FileDataPDU, flag: FileSizeFlag) {
    let Some(case) = ctx.take("FileDataPDU") else { return };
    let seg = match &v { FileDataPDU::Segmented(_) => SegmentedData::Present, FileDataPDU::Unsegmented(_) => SegmentedData::NotPresent };
    let r = judge(&v, &|x: FileDataPDU| x.encode(flag), Some(&|x: &FileDataPDU| x.encoded_len(flag) as usize),
        &|b: &[u8]| { let mut s = b; FileDataPDU::decode(&mut s, seg, flag).map_err(|e| e.to_string()) });
    ctx.done(case, "FileDataPDU", fname(flag), &v, r);
}
fn pdu_len(p: &PDU) -> usize { p.encoded_len() as usize + if p.header.crc_flag == CRCFlag::Present { 2 } else { 0 } }
fn ck_pdu(ctx: &mut Ctx, v: PDU) {
    let Some(case) = ctx.take("PDU") else { return };
    let r = judge(&v, &|x: PDU| x.encode(), Some(&pdu_len), &|b: &[u8]| { let mut s = b; PDU::decode(&mut s).map_err(|e| e.to_string()) });
    ctx.done(case, "PDU", "", &v, r);
}
/// a Metadata PDU whose only option is a message to user carrying `op`: the PDU must round trip and the carried text must decode to `op`
fn ck_pdu_userop(ctx: &mut Ctx, v: PDU, op: &UserOperation) {
    const TY: &str = "PDU carrying a UserOperation";
    let Some(case) = ctx.take(TY) else { return };
    let r = judge(&v, &|x: PDU| x.encode(), Some(&pdu_len), &|b: &[u8]| {
        let mut s = b;
        let p = PDU::decode(&mut s).map_err(|e| e.to_string())?;
        let text = match &p.payload {
            PDUPayload::Directive(Operations::Metadata(m)) => match m.options.first() { Some(MetadataTLV::MessageToUser(t)) => t.message_text.clone(), _ => return Err("decoded PDU has no message to user as first option".into()) },
            _ => return Err("decoded PDU is not a Metadata PDU".into()),
        };
        let got = UserOperation::decode(&mut &text[..]).map_err(|e| format!("the user operation carried by the decoded message to user is rejected: {}", e))?;
        if &got != op { return Err(format!("the user operation carried by the decoded message to user differs: {:?}", got)); }
        Ok(p)
    });
    ctx.done(case, TY, "", &v, r);
}
fn ck_report(ctx: &mut Ctx, v: Report) {
    let Some(case) = ctx.take("Report") else { return };
    let r: Verdict = (|| {
        let bytes = attempt(|| v.clone().encode()).map_err(|_| (vec![], "PANIC in encode".to_string()))?;
        match attempt(|| Report::decode(&mut &bytes[..])) {
            Err(_) => Err((bytes, "PANIC in decode of the encoding".into())),
            Ok(Err(e)) => Err((bytes, format!("decode rejected the encoding: {}", e))),
            // Report has PartialEq only under cfg(test): compare field by field
            Ok(Ok(d)) => if d.id == v.id && d.state == v.state && d.status == v.status && d.condition == v.condition { Ok(()) } else { Err((bytes, format!("decoded value differs from the original: {:?}", d))) },
        }
    })();
    ctx.done(case, "Report", "", &v, r);
}

// ---------------------------------------------------------------- value material
const W: [u8; 4] = [1, 2, 4, 8];
const DIAG: [(u8, u8); 4] = [(1, 1), (2, 2), (4, 4), (8, 8)];
const MIXED: [(u8, u8); 12] = [(1, 2), (1, 4), (1, 8), (2, 1), (2, 4), (2, 8), (4, 1), (4, 2), (4, 8), (8, 1), (8, 2), (8, 4)];
const L3: [usize; 3] = [0, 1, 255];
const CONDS: [Condition; 14] = [Condition::NoError, Condition::PositiveLimitReached, Condition::KeepAliveLimitReached, Condition::InvalidTransmissionMode,
    Condition::FileStoreRejection, Condition::FileChecksumFailure, Condition::FilesizeError, Condition::NakLimitReached, Condition::InactivityDetected,
    Condition::InvalidFileStructure, Condition::CheckLimitReached, Condition::UnsupportedChecksumType, Condition::SuspendReceived, Condition::CancelReceived];
const TSTAT: [TransactionStatus; 4] = [TransactionStatus::Undefined, TransactionStatus::Active, TransactionStatus::Terminated, TransactionStatus::Unrecognized];
const DELIV: [DeliveryCode; 2] = [DeliveryCode::Complete, DeliveryCode::Incomplete];
const FSTAT: [FileStatusCode; 4] = [FileStatusCode::Discarded, FileStatusCode::FileStoreRejection, FileStatusCode::Retained, FileStatusCode::Unreported];
const FLAGS: [FileSizeFlag; 2] = [FileSizeFlag::Small, FileSizeFlag::Large];
const CRCS: [CRCFlag; 2] = [CRCFlag::NotPresent, CRCFlag::Present];
const TMODES: [TransmissionMode; 2] = [TransmissionMode::Acknowledged, TransmissionMode::Unacknowledged];
const TSTATES: [TransactionState; 3] = [TransactionState::Active, TransactionState::Suspended, TransactionState::Terminated];

fn id(w: u8, v: u64) -> VariableID { match w { 1 => VariableID::from(v as u8), 2 => VariableID::from(v as u16), 4 => VariableID::from(v as u32), _ => VariableID::from(v) } }
fn idmax(w: u8) -> u64 { match w { 1 => 0xff, 2 => 0xffff, 4 => 0xffff_ffff, _ => u64::MAX } }
fn idvals(w: u8) -> [u64; 3] { [0, 1, idmax(w)] }
fn all_ids() -> Vec<VariableID> { let mut v = vec![]; for w in W { for x in idvals(w) { v.push(id(w, x)); } } v }
fn all_combos() -> Vec<(u8, u8)> { let mut v = vec![]; for a in W { for b in W { v.push((a, b)); } } v }
fn combos(k: u64, thorough: bool) -> Vec<(u8, u8)> {
    if thorough { all_combos() } else { vec![DIAG[(k % 4) as usize], MIXED[(k % 12) as usize], MIXED[((k + 7) % 12) as usize]] }
}
fn u3(i: u64) -> U3 { match i % 8 { 0 => U3::Zero, 1 => U3::One, 2 => U3::Two, 3 => U3::Three, 4 => U3::Four, 5 => U3::Five, 6 => U3::Six, _ => U3::Seven } }
fn ptype(b: u64) -> PDUType { if b & 1 == 0 { PDUType::FileDirective } else { PDUType::FileData } }
fn dir(b: u64) -> Direction { if b & 1 == 0 { Direction::ToReceiver } else { Direction::ToSender } }
fn segctl(b: u64) -> SegmentationControl { if b & 1 == 0 { SegmentationControl::NotPreserved } else { SegmentationControl::Preserved } }
fn segmeta(b: u64) -> SegmentedData { if b & 1 == 0 { SegmentedData::NotPresent } else { SegmentedData::Present } }
fn actions() -> Vec<FileStoreAction> {
    vec![FileStoreAction::CreateFile, FileStoreAction::DeleteFile, FileStoreAction::RenameFile, FileStoreAction::AppendFile, FileStoreAction::ReplaceFile,
        FileStoreAction::CreateDirectory, FileStoreAction::RemoveDirectory, FileStoreAction::DenyFile, FileStoreAction::DenyDirectory]
}
fn handler_codes() -> Vec<HandlerCode> { vec![HandlerCode::NoticeOfCancellation, HandlerCode::NoticeOfSuspension, HandlerCode::IgnoreError, HandlerCode::AbandonTransaction] }
fn fs_statuses() -> Vec<FileStoreStatus> {
    use FileStoreStatus as S;
    vec![S::CreateFile(CreateFileStatus::Successful), S::CreateFile(CreateFileStatus::NotAllowed), S::CreateFile(CreateFileStatus::NotPerformed),
        S::DeleteFile(DeleteFileStatus::Successful), S::DeleteFile(DeleteFileStatus::FileDoesNotExist), S::DeleteFile(DeleteFileStatus::DeleteNotAllowed), S::DeleteFile(DeleteFileStatus::NotPerformed),
        S::RenameFile(RenameStatus::Successful), S::RenameFile(RenameStatus::OldFilenameDoesNotExist), S::RenameFile(RenameStatus::NewFilenameAlreadyExists), S::RenameFile(RenameStatus::RenameNotAllowed), S::RenameFile(RenameStatus::NotPerformed),
        S::AppendFile(AppendStatus::Successful), S::AppendFile(AppendStatus::Filename1DoesNotExist), S::AppendFile(AppendStatus::Filename2DoesNotExist), S::AppendFile(AppendStatus::NotAllowed), S::AppendFile(AppendStatus::NotPerformed),
        S::ReplaceFile(ReplaceStatus::Successful), S::ReplaceFile(ReplaceStatus::Filename1DoesNotExist), S::ReplaceFile(ReplaceStatus::Filename2DoesNotExist), S::ReplaceFile(ReplaceStatus::NotAllowed), S::ReplaceFile(ReplaceStatus::NotPerformed),
        S::CreateDirectory(CreateDirectoryStatus::Successful), S::CreateDirectory(CreateDirectoryStatus::DirectoryCannotBeCreated), S::CreateDirectory(CreateDirectoryStatus::NotPerformed),
        S::RemoveDirectory(RemoveDirectoryStatus::Successful), S::RemoveDirectory(RemoveDirectoryStatus::DirectoryDoesNotExist), S::RemoveDirectory(RemoveDirectoryStatus::DeleteNotAllowed), S::RemoveDirectory(RemoveDirectoryStatus::NotPerformed),
        S::DenyFile(DenyStatus::Successful), S::DenyFile(DenyStatus::NotAllowed), S::DenyFile(DenyStatus::NotPerformed),
        S::DenyDirectory(DenyStatus::Successful), S::DenyDirectory(DenyStatus::NotAllowed), S::DenyDirectory(DenyStatus::NotPerformed)]
}
/// ASCII name of exactly `len` octets (no separators or dots: path comparison is then plain string comparison)
fn name(len: usize, salt: u64) -> String {
    const A: &[u8] = b"abcdefghijklmnopqrstuvwxyzABCDEFGHIJKLMNOPQRSTUVWXYZ0123456789_";
    (0..len).map(|i| A[((i as u64).wrapping_mul(7).wrapping_add(salt) % A.len() as u64) as usize] as char).collect()
}
fn blob(len: usize, salt: u64) -> Vec<u8> { (0..len).map(|i| match i { 0 => 0xff, 1 => 0x00, _ => (i as u64).wrapping_mul(37).wrapping_add(salt.wrapping_mul(11)) as u8 }).collect() }
/// file sizes / offsets that the flag can represent
fn sizes(flag: FileSizeFlag) -> Vec<u64> { match flag { FileSizeFlag::Small => vec![0, 1, 0xffff_ffff], FileSizeFlag::Large => vec![0, 1, 0xffff_ffff, 0x1_0000_0000, u64::MAX] } }
fn resp(st: FileStoreStatus, l: (usize, usize, usize), salt: u64) -> FileStoreResponse {
    FileStoreResponse { action_and_status: st, first_filename: name(l.0, salt).into(), second_filename: name(l.1, salt + 1).into(), filestore_message: blob(l.2, salt) }
}
fn l27() -> Vec<(usize, usize, usize)> { let mut v = vec![]; for a in L3 { for b in L3 { for c in L3 { v.push((a, b, c)); } } } v }
/// (first name, second name, message) lengths whose response fits the one-octet TLV length used inside Finished and user operations
const RESP_FIT: [(usize, usize, usize); 9] = [(0, 0, 0), (1, 0, 0), (0, 1, 0), (0, 0, 1), (1, 1, 1), (251, 0, 0), (0, 251, 0), (0, 0, 251), (100, 100, 51)];
/// (first name, second name) lengths whose request fits a one-octet length
const REQ_FIT: [(usize, usize); 7] = [(0, 0), (1, 0), (0, 1), (1, 1), (252, 0), (0, 252), (126, 126)];

fn header(flag: FileSizeFlag, crc: CRCFlag, t: PDUType, seg: SegmentedData, we: u8, ws: u8, k: u64, len: u16) -> PDUHeader {
    PDUHeader { version: U3::One, pdu_type: t, direction: dir(k), transmission_mode: TMODES[((k >> 1) & 1) as usize], crc_flag: crc, large_file_flag: flag,
        pdu_data_field_length: len, segmentation_control: segctl(k >> 2), segment_metadata_flag: seg,
        source_entity_id: id(we, idvals(we)[(k % 3) as usize]), transaction_sequence_number: id(ws, idvals(ws)[((k / 3) % 3) as usize]), destination_entity_id: id(we, idvals(we)[((k / 9) % 3) as usize]) }
}

// ---------------------------------------------------------------- (H) headers
fn gen_headers(ctx: &mut Ctx) {
    let versions: Vec<u64> = if ctx.thorough { (0..8).collect() } else { vec![1, 7] };
    for we in W { for ws in W { for bits in 0..128u64 {
        let crc = CRCS[(bits & 1) as usize];
        let maxlen: u16 = if crc == CRCFlag::Present { 0xfffd } else { 0xffff }; // the encoder adds 2 for the CRC
        let lens: Vec<u16> = if ctx.thorough { vec![0, 1, 0x1234, maxlen] } else { vec![0, maxlen] };
        for vs in idvals(we) { for vq in idvals(ws) { for vd in idvals(we) { for ver in &versions { for len in &lens {
            let h = PDUHeader { version: u3(*ver), pdu_type: ptype(bits >> 4), direction: dir(bits >> 3), transmission_mode: TMODES[((bits >> 2) & 1) as usize], crc_flag: crc,
                large_file_flag: FLAGS[((bits >> 1) & 1) as usize], pdu_data_field_length: *len, segmentation_control: segctl(bits >> 5), segment_metadata_flag: segmeta(bits >> 6),
                source_entity_id: id(we, vs), transaction_sequence_number: id(ws, vq), destination_entity_id: id(we, vd) };
            ck_p(ctx, "PDUHeader", h);
        } } } } }
    } } }
}

// ---------------------------------------------------------------- (P) payloads
fn on_payload(ctx: &mut Ctx, flag: FileSizeFlag, p: PDUPayload) {
    let k = ctx.pk;
    ctx.pk += 1;
    let (t, seg) = match &p {
        PDUPayload::Directive(op) => {
            match op {
                Operations::EoF(x) => ck_f(ctx, "EndOfFile", x.clone(), flag),
                Operations::Finished(x) => ck_p(ctx, "Finished", x.clone()),
                Operations::Ack(x) => ck_p(ctx, "PositiveAcknowledgePDU", x.clone()),
                Operations::Metadata(x) => ck_f(ctx, "MetadataPDU", x.clone(), flag),
                Operations::Nak(x) => ck_f(ctx, "NegativeAcknowledgmentPDU", x.clone(), flag),
                Operations::Prompt(x) => ck_p(ctx, "PromptPDU", x.clone()),
                Operations::KeepAlive(x) => ck_f(ctx, "KeepAlivePDU", x.clone(), flag),
            }
            ck_f(ctx, "Operations", op.clone(), flag);
            (PDUType::FileDirective, segmeta(k >> 3))
        }
        PDUPayload::FileData(fd) => {
            let seg = match fd {
                FileDataPDU::Unsegmented(x) => { ck_f(ctx, "UnsegmentedFileData", x.clone(), flag); SegmentedData::NotPresent }
                FileDataPDU::Segmented(x) => { ck_f(ctx, "SegmentedFileData", x.clone(), flag); SegmentedData::Present }
            };
            ck_fd(ctx, fd.clone(), flag);
            (PDUType::FileData, seg)
        }
    };
    let len = match attempt(|| p.encoded_len(flag)) { Ok(n) => n, Err(_) => 0 }; // a panic here is reported by the checks above / below
    // all 16 (entity, sequence) width pairs, except in the quick tier for the one very large family (Finished): 1 equal + 2 mixed pairs, rotating
    let wide = ctx.thorough || !matches!(&p, PDUPayload::Directive(Operations::Finished(_)));
    for crc in CRCS { for (we, ws) in combos(k, wide) {
        ck_pdu(ctx, PDU { header: header(flag, crc, t.clone(), seg, we, ws, k, len), payload: p.clone() });
    } }
}
fn dirv(ctx: &mut Ctx, flag: FileSizeFlag, o: Operations) { on_payload(ctx, flag, PDUPayload::Directive(o)) }

fn gen_eof(ctx: &mut Ctx, flag: FileSizeFlag) {
    for c in CONDS {
        // the decoder reads a fault location exactly when the condition is not NoError
        let faults: Vec<Option<VariableID>> = if c == Condition::NoError { vec![None] } else { all_ids().into_iter().map(Some).collect() };
        for f in faults { for checksum in [0u32, 0x1234_5678, u32::MAX] { for size in sizes(flag) {
            dirv(ctx, flag, Operations::EoF(EndOfFile { condition: c, checksum, file_size: size, fault_location: f }));
        } } }
    }
}
fn gen_finished(ctx: &mut Ctx, flag: FileSizeFlag) {
    let sts = fs_statuses();
    let mut j = 0u64;
    for c in CONDS { for dc in DELIV { for fs in FSTAT {
        // NoError: file store responses only; otherwise an optional fault location after the responses
        let mut faults: Vec<Option<VariableID>> = vec![None];
        if c != Condition::NoError { for w in W {
            if ctx.thorough { for v in idvals(w) { faults.push(Some(id(w, v))); } } else { j += 1; faults.push(Some(id(w, idvals(w)[(j % 3) as usize]))); }
        } }
        for f in faults {
            let mk = |r: Vec<FileStoreResponse>| Operations::Finished(Finished { condition: c, delivery_code: dc, file_status: fs, filestore_response: r, fault_location: f });
            dirv(ctx, flag, mk(vec![]));
            for (i, st) in sts.iter().enumerate() {
                j += 1;
                let l1 = RESP_FIT[((i as u64 + j) % 9) as usize];
                let l2 = RESP_FIT[((i as u64 + 2 * j + 3) % 9) as usize];
                dirv(ctx, flag, mk(vec![resp(*st, l1, j)]));
                dirv(ctx, flag, mk(vec![resp(*st, l2, j), resp(sts[(i + 17) % sts.len()], l1, j + 5)]));
            }
        }
    } } }
}
fn gen_ack(ctx: &mut Ctx, flag: FileSizeFlag) {
    // the only pairs the decoder accepts: (EoF, Other) and (Finished, Finished)
    for which in 0..2 { for c in CONDS { for ts in TSTAT {
        let (d, s) = if which == 0 { (PDUDirective::EoF, ACKSubDirective::Other) } else { (PDUDirective::Finished, ACKSubDirective::Finished) };
        dirv(ctx, flag, Operations::Ack(PositiveAcknowledgePDU { directive: d, directive_subtype_code: s, condition: c, transaction_status: ts }));
    } } }
}
fn tlvs(thorough: bool) -> Vec<MetadataTLV> {
    let mut v = vec![];
    for (i, a) in actions().into_iter().enumerate() { for f1 in L3 { for f2 in L3 {
        v.push(MetadataTLV::FileStoreRequest(FileStoreRequest { action_code: a.clone(), first_filename: name(f1, i as u64).into(), second_filename: name(f2, i as u64 + 1).into() }));
    } } }
    let l = l27();
    for (i, st) in fs_statuses().into_iter().enumerate() {
        if thorough { for x in &l { v.push(MetadataTLV::FileStoreResponse(resp(st, *x, i as u64))); } }
        else { for d in [0usize, 10, 20] { v.push(MetadataTLV::FileStoreResponse(resp(st, l[(i * 5 + d) % 27], i as u64))); } }
    }
    for n in L3 { v.push(MetadataTLV::MessageToUser(MessageToUser { message_text: blob(n, 3) })); }
    for h in handler_codes() { v.push(MetadataTLV::FaultHandlerOverride(FaultHandlerOverride { fault_handler_code: h })); }
    for n in L3 { v.push(MetadataTLV::FlowLabel(FlowLabel { value: blob(n, 5) })); }
    for i in all_ids() { v.push(MetadataTLV::EntityID(i)); }
    v
}
fn tlv_reps() -> Vec<MetadataTLV> {
    vec![MetadataTLV::FileStoreRequest(FileStoreRequest { action_code: FileStoreAction::RenameFile, first_filename: "x".into(), second_filename: "y".into() }),
        MetadataTLV::FileStoreResponse(resp(FileStoreStatus::AppendFile(AppendStatus::NotPerformed), (1, 1, 1), 2)),
        MetadataTLV::MessageToUser(MessageToUser { message_text: vec![1, 2, 3] }), MetadataTLV::MessageToUser(MessageToUser { message_text: vec![] }),
        MetadataTLV::FaultHandlerOverride(FaultHandlerOverride { fault_handler_code: HandlerCode::IgnoreError }),
        MetadataTLV::FlowLabel(FlowLabel { value: vec![] }), MetadataTLV::FlowLabel(FlowLabel { value: vec![9, 0] }),
        MetadataTLV::EntityID(id(1, 5)), MetadataTLV::EntityID(id(8, u64::MAX)), MetadataTLV::EntityID(id(2, 0))]
}
fn gen_metadata(ctx: &mut Ctx, flag: FileSizeFlag) {
    let reps = tlv_reps();
    let sz = sizes(flag);
    let mut j = 0usize;
    for cs in [ChecksumType::Modular, ChecksumType::Null] { for closure in [false, true] { for size in &sz { for sl in L3 { for dl in L3 {
        j += 1;
        for opts in [vec![], vec![reps[j % reps.len()].clone(), reps[(j / 3) % reps.len()].clone()]] {
            dirv(ctx, flag, Operations::Metadata(MetadataPDU { closure_requested: closure, checksum_type: cs, file_size: *size, source_filename: name(sl, j as u64).into(), destination_filename: name(dl, j as u64 + 3).into(), options: opts }));
        }
    } } } } }
    let base = |j: usize, opts: Vec<MetadataTLV>| Operations::Metadata(MetadataPDU { closure_requested: j % 2 == 1, checksum_type: if j % 4 < 2 { ChecksumType::Modular } else { ChecksumType::Null },
        file_size: sz[j % sz.len()], source_filename: name([0, 1, 7, 255][j % 4], j as u64).into(), destination_filename: name([3, 0, 255, 1][j % 4], j as u64 + 1).into(), options: opts });
    for t in tlvs(ctx.thorough) { j += 1; dirv(ctx, flag, base(j, vec![t])); }
    for a in &reps { for b in &reps { j += 1; dirv(ctx, flag, base(j, vec![a.clone(), b.clone()])); } }
    dirv(ctx, flag, base(1, reps.clone()));
    dirv(ctx, flag, base(2, reps.iter().rev().cloned().collect()));
}
fn srf(s: u64, e: u64) -> SegmentRequestForm { SegmentRequestForm { start_offset: s, end_offset: e } }
fn gen_nak(ctx: &mut Ctx, flag: FileSizeFlag) {
    let b = sizes(flag);
    let max = *b.last().unwrap();
    let mut lists: Vec<Vec<SegmentRequestForm>> = vec![vec![]];
    for s in &b { for e in &b { lists.push(vec![srf(*s, *e)]); } }
    lists.push(vec![srf(0, 0), srf(max, max)]);
    lists.push(vec![srf(0, max), srf(max, 0)]);
    lists.push(vec![srf(1, 2), srf(2, 3)]);
    let many: Vec<u64> = if ctx.thorough { vec![3, 64, 1000, 4000] } else { vec![3, 64] };
    for n in many {
        lists.push((0..n).map(|i| if i == 0 { srf(0, 1) } else if i == n - 1 { srf(max - 1, max) } else { srf(i.wrapping_mul(0x9E37_79B9_7F4A_7C15) & max, i.wrapping_mul(0xC2B2_AE3D_27D4_EB4F) & max) }).collect());
    }
    let mut j = 0usize;
    for l in lists {
        if l.len() > 64 {
            for _ in 0..3 { j += 1; dirv(ctx, flag, Operations::Nak(NegativeAcknowledgmentPDU { start_of_scope: b[j % b.len()], end_of_scope: b[(j / 2) % b.len()], segment_requests: l.clone() })); }
        } else {
            for s in &b { for e in &b { dirv(ctx, flag, Operations::Nak(NegativeAcknowledgmentPDU { start_of_scope: *s, end_of_scope: *e, segment_requests: l.clone() })); } }
        }
    }
}
fn gen_small_directives(ctx: &mut Ctx, flag: FileSizeFlag) {
    for p in [NakOrKeepAlive::Nak, NakOrKeepAlive::KeepAlive] { dirv(ctx, flag, Operations::Prompt(PromptPDU { nak_or_keep_alive: p })); }
    for s in sizes(flag) { dirv(ctx, flag, Operations::KeepAlive(KeepAlivePDU { progress: s })); }
}
fn gen_filedata(ctx: &mut Ctx, flag: FileSizeFlag) {
    let mut lens = vec![0usize, 1, 255, 4096];
    if ctx.thorough { lens.push(65000); }
    for off in sizes(flag) { for n in &lens {
        on_payload(ctx, flag, PDUPayload::FileData(FileDataPDU::Unsegmented(UnsegmentedFileData { offset: off, file_data: blob(*n, off) })));
    } }
    let mut lens = vec![0usize, 1, 300];
    if ctx.thorough { lens.push(60000); }
    for rcs in [RecordContinuationState::First, RecordContinuationState::Last, RecordContinuationState::Unsegmented, RecordContinuationState::Interim] {
        for m in [0usize, 1, 63] { for off in sizes(flag) { for n in &lens {
            on_payload(ctx, flag, PDUPayload::FileData(FileDataPDU::Segmented(SegmentedFileData { record_continuation_state: rcs.clone(), segment_metadata: blob(m, 7), offset: off, file_data: blob(*n, off ^ 1) })));
        } } }
    }
}

// ---------------------------------------------------------------- (L) leaf types
fn gen_leaves(ctx: &mut Ctx) {
    for i in all_ids() { ck_id(ctx, i); }
    for w in W { for bit in 0..(8 * w as u32) { ck_id(ctx, id(w, 1u64 << bit)); } }
    for n in L3 { ck_p(ctx, "FlowLabel", FlowLabel { value: blob(n, 1) }); ck_p(ctx, "MessageToUser", MessageToUser { message_text: blob(n, 2) }); }
    for h in handler_codes() { ck_p(ctx, "FaultHandlerOverride", FaultHandlerOverride { fault_handler_code: h }); }
    for m in TMODES { ck_p(ctx, "TransmissionMode", m); }
    for flag in FLAGS { for s in sizes(flag) { for e in sizes(flag) { ck_f(ctx, "SegmentRequestForm", srf(s, e), flag); } } }
    for (i, a) in actions().into_iter().enumerate() { for f1 in L3 { for f2 in L3 {
        ck_p(ctx, "FileStoreRequest", FileStoreRequest { action_code: a.clone(), first_filename: name(f1, i as u64).into(), second_filename: name(f2, i as u64 + 2).into() });
    } } }
    for (i, st) in fs_statuses().into_iter().enumerate() { for l in l27() { ck_p(ctx, "FileStoreResponse", resp(st, l, i as u64)); } }
    for t in tlvs(true) { ck_p(ctx, "MetadataTLV", t); }
}

// ---------------------------------------------------------------- (U) user operations
fn judge_userop(op: &UserOperation) -> Verdict {
    judge(op, &|x: UserOperation| x.encode(), Some(&|x: &UserOperation| x.encoded_len() as usize), &|b: &[u8]| { let mut s = b; UserOperation::decode(&mut s).map_err(|e| e.to_string()) })
}
/// the operation carried as a message to user inside a Metadata PDU (only when it fits the one-octet length of the message)
fn wrapped(ctx: &mut Ctx, op: &UserOperation) {
    let n = match attempt(|| op.clone().encode().len()) { Ok(n) => n, Err(_) => return };
    if n > 255 { return; }
    let k = ctx.pk;
    ctx.pk += 1;
    let all = all_combos();
    let variants: Vec<(FileSizeFlag, CRCFlag, (u8, u8))> = if ctx.thorough {
        let mut v = vec![]; for f in FLAGS { for c in CRCS { for w in combos(k, false) { v.push((f, c, w)); } } } v
    } else { vec![(FLAGS[(k & 1) as usize], CRCS[((k >> 1) & 1) as usize], all[(k % 16) as usize])] };
    for (flag, crc, (we, ws)) in variants {
        let m = MetadataPDU { closure_requested: k & 4 != 0, checksum_type: if k & 8 != 0 { ChecksumType::Null } else { ChecksumType::Modular }, file_size: 1 + (k & 0xffff),
            source_filename: name((k % 5) as usize, k).into(), destination_filename: name((k % 3) as usize, k + 1).into(), options: vec![MetadataTLV::MessageToUser(MessageToUser::from(op.clone()))] };
        let p = PDUPayload::Directive(Operations::Metadata(m));
        let len = match attempt(|| p.encoded_len(flag)) { Ok(n) => n, Err(_) => 0 };
        ck_pdu_userop(ctx, PDU { header: header(flag, crc, PDUType::FileDirective, SegmentedData::NotPresent, we, ws, k, len), payload: p }, op);
    }
}
fn on_userop(ctx: &mut Ctx, op: UserOperation) {
    if let Some(case) = ctx.take("UserOperation") { let r = judge_userop(&op); ctx.done(case, "UserOperation", "", &op, r); }
    wrapped(ctx, &op);
}
/// for the types whose fields are private: the value is whatever the decoder makes of the hand-assembled wire form of a well-formed
/// value; the encoder must give that wire form back, and the value must round trip
fn on_userop_wire(ctx: &mut Ctx, ty: &'static str, wire: Vec<u8>) {
    let built = attempt(|| UserOperation::decode(&mut &wire[..]));
    if let Some(case) = ctx.take(ty) {
        let shown = format!("wire form {}", hex(&wire));
        let r: Verdict = match &built {
            Err(_) => Err((wire.clone(), "PANIC decoding the hand-assembled wire form of a well-formed value".into())),
            Ok(Err(e)) => Err((wire.clone(), format!("decode rejected the hand-assembled wire form of a well-formed value: {}", e))),
            Ok(Ok(op)) => match attempt(|| op.clone().encode()) {
                Err(_) => Err((wire.clone(), "PANIC in encode".into())),
                Ok(b) => if b != wire { Err((b, format!("encode(decode(w)) differs from the wire form w = {} ; decoded {:?}", hex(&wire), op))) } else { judge_userop(op) },
            },
        };
        match &built { Ok(Ok(op)) => ctx.done(case, ty, "", op, r), _ => ctx.done(case, ty, "", &shown, r) }
    }
    if let Ok(Ok(op)) = &built { wrapped(ctx, op); }
}
fn lv(b: &[u8]) -> Vec<u8> { let mut v = vec![b.len() as u8]; v.extend_from_slice(b); v }
fn idlv(i: VariableID) -> Vec<u8> { lv(&i.to_be_bytes()) }
fn uo_wire(msg_type: u8, body: &[u8]) -> Vec<u8> { let mut v = b"cfdp".to_vec(); v.push(msg_type); v.extend_from_slice(body); v }

fn gen_userops(ctx: &mut Ctx) {
    let th = ctx.thorough;
    let mut j = 0u64;
    // every operation made of a (source entity id, transaction sequence number) pair: all 16 width pairs x boundary values
    for we in W { for ws in W { for ve in idvals(we) { for vs in idvals(ws) {
        let (e, s) = (id(we, ve), id(ws, vs));
        let m = OriginatingTransactionIDMessage { source_entity_id: e, transaction_sequence_number: s };
        ck_p(ctx, "OriginatingTransactionIDMessage", m.clone());
        on_userop(ctx, UserOperation::OriginatingTransactionIDMessage(m));
        let m = RemoteSuspendRequest { source_entity_id: e, transaction_sequence_number: s };
        ck_p(ctx, "RemoteSuspendRequest", m.clone());
        on_userop(ctx, UserOperation::Request(UserRequest::RemoteSuspend(m)));
        let m = RemoteResumeRequest { source_entity_id: e, transaction_sequence_number: s };
        ck_p(ctx, "RemoteResumeRequest", m.clone());
        on_userop(ctx, UserOperation::Request(UserRequest::RemoteResume(m)));
        for n in [0usize, 1, 230, 255] {
            let m = RemoteStatusReportRequest { source_entity_id: e, transaction_sequence_number: s, report_filename: name(n, j).into() };
            j += 1;
            ck_p(ctx, "RemoteStatusReportRequest", m.clone());
            on_userop(ctx, UserOperation::Request(UserRequest::RemoteStatusReport(m)));
        }
        for ts in TSTAT { for b in [false, true] {
            let m = RemoteStatusReportResponse { transaction_status: ts, response_code: b, source_entity_id: e, transaction_sequence_number: s };
            ck_p(ctx, "RemoteStatusReportResponse", m.clone());
            on_userop(ctx, UserOperation::Response(UserResponse::RemoteStatusReport(m)));
            let m = RemoteSuspendResponse { suspend_indication: b, transaction_status: ts, source_entity_id: e, transaction_sequence_number: s };
            ck_p(ctx, "RemoteSuspendResponse", m.clone());
            on_userop(ctx, UserOperation::Response(UserResponse::RemoteSuspend(m)));
            let m = RemoteResumeResponse { suspend_indication: b, transaction_status: ts, source_entity_id: e, transaction_sequence_number: s };
            ck_p(ctx, "RemoteResumeResponse", m.clone());
            on_userop(ctx, UserOperation::Response(UserResponse::RemoteResume(m)));
        } }
    } } } }
    // proxy operations
    for i in all_ids() { for sl in [0usize, 1, 120, 255] { for dl in [0usize, 1, 120, 255] {
        j += 1;
        let m = ProxyPutRequest { destination_entity_id: i, source_filename: name(sl, j).into(), destination_filename: name(dl, j + 1).into() };
        ck_p(ctx, "ProxyPutRequest", m.clone());
        on_userop(ctx, UserOperation::ProxyOperation(ProxyOperation::ProxyPutRequest(m)));
    } } }
    for n in [0usize, 1, 249, 255] {
        on_userop(ctx, UserOperation::ProxyOperation(ProxyOperation::ProxyMessageToUser(MessageToUser { message_text: blob(n, 1) })));
        on_userop(ctx, UserOperation::ProxyOperation(ProxyOperation::ProxyFlowLabel(FlowLabel { value: blob(n, 2) })));
        on_userop(ctx, UserOperation::SFOMessageToUser(MessageToUser { message_text: blob(n, 3) }));
        on_userop(ctx, UserOperation::SFOFlowLabel(FlowLabel { value: blob(n, 4) }));
    }
    for (i, a) in actions().into_iter().enumerate() { for (f1, f2) in REQ_FIT {
        let m = FileStoreRequest { action_code: a.clone(), first_filename: name(f1, i as u64).into(), second_filename: name(f2, i as u64 + 1).into() };
        on_userop(ctx, UserOperation::ProxyOperation(ProxyOperation::ProxyFileStoreRequest(m.clone())));
        on_userop(ctx, UserOperation::SFOFileStoreRequest(m));
    } }
    for (i, st) in fs_statuses().into_iter().enumerate() { for l in RESP_FIT {
        let m = resp(st, l, i as u64);
        on_userop(ctx, UserOperation::Response(UserResponse::ProxyFileStore(m.clone())));
        on_userop(ctx, UserOperation::SFOFileStoreResponse(m));
    } }
    for h in handler_codes() {
        on_userop(ctx, UserOperation::ProxyOperation(ProxyOperation::ProxyFaultHandlerOverride(FaultHandlerOverride { fault_handler_code: h.clone() })));
        on_userop(ctx, UserOperation::SFOFaultHandlerOverride(FaultHandlerOverride { fault_handler_code: h }));
    }
    for m in TMODES { on_userop(ctx, UserOperation::ProxyOperation(ProxyOperation::ProxyTransmissionMode(m))); }
    on_userop(ctx, UserOperation::ProxyOperation(ProxyOperation::ProxyPutCancel));
    for c in [0u8, 1] { on_userop_wire(ctx, "UserOperation (ProxySegmentationControl, built from its wire form)", uo_wire(MessageType::ProxySegmentationControl as u8, &[c])); }
    for c in CONDS { for dc in DELIV { for fs in FSTAT {
        let m = ProxyPutResponse { condition: c, delivery_code: dc, file_status: fs };
        ck_p(ctx, "ProxyPutResponse", m.clone());
        on_userop(ctx, UserOperation::Response(UserResponse::ProxyPut(m)));
    } } }
    // directory listing
    for a in [0usize, 1, 124, 255] { for b in [0usize, 1, 124, 255] {
        j += 1;
        let m = DirectoryListingRequest { directory_name: name(a, j).into(), directory_filename: name(b, j + 1).into() };
        ck_p(ctx, "DirectoryListingRequest", m.clone());
        on_userop(ctx, UserOperation::Request(UserRequest::DirectoryListing(m)));
        for code in [ListingResponseCode::Successful, ListingResponseCode::Unsuccessful] {
            let m = DirectoryListingResponse { response_code: code, directory_name: name(a, j + 2).into(), directory_filename: name(b, j + 3).into() };
            ck_p(ctx, "DirectoryListingResponse", m.clone());
            on_userop(ctx, UserOperation::Response(UserResponse::DirectoryListing(m)));
        }
    } }
    // store and forward overlay request (private fields): first octet = trace control(2) mode(1) segmentation(1) closure(1) spare(3)
    let l4 = [0usize, 1, 40, 255];
    for fb in 0..32u8 { for (ws, wd) in all_combos() {
        let extra: Vec<(u8, usize, usize, usize)> = if th { let mut v = vec![]; for wp in [0u8, 1, 255] { for ll in l4 { j += 1; v.push((wp, ll, l4[(j % 4) as usize], l4[((j / 4) % 4) as usize])); } } v }
            else { j += 1; vec![([0u8, 1, 255][(j % 3) as usize], l4[((j / 3) % 4) as usize], l4[((j / 12) % 4) as usize], l4[((j / 48) % 4) as usize])] };
        for (wp, ll, sl, dl) in extra {
            let mut body = vec![fb << 3, wp];
            body.extend(lv(&blob(ll, j)));
            body.extend(idlv(id(ws, idvals(ws)[(j % 3) as usize])));
            body.extend(idlv(id(wd, idvals(wd)[((j / 3) % 3) as usize])));
            body.extend(lv(name(sl, j).as_bytes()));
            body.extend(lv(name(dl, j + 1).as_bytes()));
            on_userop_wire(ctx, "UserOperation (SFORequest, built from its wire form)", uo_wire(MessageType::SFORequest as u8, &body));
        }
    } }
    // store and forward overlay report (private fields): last octet = condition(4) direction(1) delivery code(1) file status(2)
    let mut widths3 = vec![];
    for a in W { for b in W { for c in W { widths3.push((a, b, c)); } } }
    for c in CONDS { for lo in 0..16u8 {
        let last = ((c as u8) << 4) | lo;
        let ws: Vec<(u8, u8, u8)> = if th { widths3.clone() } else { j += 1; vec![widths3[(j % 64) as usize], widths3[((j * 7 + 13) % 64) as usize]] };
        for (a, b, r) in ws {
            j += 1;
            let mut body = lv(&blob([0usize, 1, 20, 255][(j % 4) as usize], j));
            body.extend(idlv(id(a, idvals(a)[(j % 3) as usize])));
            body.extend(idlv(id(b, idvals(b)[((j / 3) % 3) as usize])));
            body.extend(idlv(id(r, idvals(r)[((j / 9) % 3) as usize])));
            body.extend([[0u8, 1, 255][(j % 3) as usize], [255u8, 0, 1, 0x80][(j % 4) as usize], last]);
            on_userop_wire(ctx, "UserOperation (SFOReport, built from its wire form)", uo_wire(MessageType::SFOReport as u8, &body));
        }
    } }
}

// ---------------------------------------------------------------- (R) reports
fn gen_reports(ctx: &mut Ctx) {
    for st in TSTATES { for ts in TSTAT { for c in CONDS { for we in W { for ws in W { for ve in idvals(we) { for vs in idvals(ws) {
        ck_report(ctx, Report { id: TransactionID(id(we, ve), id(ws, vs)), state: st, status: ts, condition: c });
    } } } } } } }
}

fn main() {
    // silent hook; the location of the last panic is kept for the case where the enumeration itself is at fault
    panic::set_hook(Box::new(|i| { if let Ok(mut g) = LAST_PANIC.lock() { *g = i.location().map_or(String::new(), |l| format!("{}:{}", l.file(), l.line())); } }));
    if panic::catch_unwind(run).is_err() {
        println!("{{\"kind\":\"roundtrip\",\"error\":\"internal error: the enumeration itself panicked at {}\"}}", clean(&LAST_PANIC.lock().map(|g| g.clone()).unwrap_or_default(), 200));
        std::process::exit(2)
    }
}

static LAST_PANIC: std::sync::Mutex<String> = std::sync::Mutex::new(String::new());

fn run() {
    let a: Vec<String> = std::env::args().collect();
    let (target, tier) = match a.get(1).map(|s| s.as_str()) {
        Some("search") => (None, a.get(2)),
        Some("replay") => match a.get(2).and_then(|s| s.parse::<u64>().ok()) {
            Some(n) => (Some(n), a.get(3)),
            None => { println!("{{\"kind\":\"roundtrip\",\"error\":\"usage: roundtrip_bounded replay CASE [quick|thorough]\"}}"); std::process::exit(2) }
        },
        _ => { println!("{{\"kind\":\"roundtrip\",\"error\":\"usage: roundtrip_bounded search [quick|thorough] | replay CASE [quick|thorough]\"}}"); std::process::exit(2) }
    };
    let thorough = tier.map_or(false, |s| s == "thorough");
    let mut ctx = Ctx { next: 0, target, evals: 0, thorough, pk: 0, counts: BTreeMap::new() };
    let ctx = &mut ctx;
    gen_headers(ctx);
    gen_leaves(ctx);
    for flag in FLAGS {
        gen_eof(ctx, flag);
        gen_ack(ctx, flag);
        gen_small_directives(ctx, flag);
        gen_nak(ctx, flag);
        gen_filedata(ctx, flag);
        gen_metadata(ctx, flag);
        gen_finished(ctx, flag);
    }
    gen_userops(ctx);
    gen_reports(ctx);
    if let Some(t) = target {
        println!("{{\"kind\":\"roundtrip\",\"error\":\"case index {} is out of range: the {} enumeration has {} cases\"}}", t, if thorough { "thorough" } else { "quick" }, ctx.next);
        std::process::exit(2)
    }
    let per_type: Vec<String> = ctx.counts.iter().map(|(k, v)| format!("{} {}", v, k)).collect();
    println!("{{\"kind\":\"roundtrip\",\"result\":\"all round trips hold within bound\",\"bound\":\"{} tier, deterministic enumeration: headers over all 16 (entity, sequence) width pairs x all flag bits x id values 0/1/max; every directive and file data variant with exhaustive enumerated fields, boundary sizes/offsets for both file size flags, as its own type, as Operations/FileDataPDU and as full PDU with CRC on/off and {} header width pairs (equal and mixed) per payload; every metadata TLV; every user operation variant (own codec, inner struct codec, and carried in a Metadata PDU); status reports over every state x status x condition x width pair x id values 0/1/max. Evaluations per type: {}\",\"evaluations\":{},\"distinct_types\":{}}}",
        if thorough { "thorough" } else { "quick" }, if thorough { "all 16" } else { "all 16 (3 rotating for Finished)" }, per_type.join("; "), ctx.evals, ctx.counts.len());
}
