#!/bin/bash
# usage: try_seed.sh <patch.diff> <prop> [<prop>...]   -- applies the patch to a scratch copy of /repo and runs the checks against it
# (evidence of a run against a tree other than /repo goes to build/evidence_other, never to /verif/evidence)
set -e
P=$1; shift
S=/tmp/seed_try_repo_$$
rm -rf $S; rsync -a --exclude target --exclude .git /repo/ $S/
(cd $S && patch -p1 -s < $P)
for prop in "$@"; do
  python3 /verif/vp.py check $prop --repo $S 2>&1 | grep -v "^NOTE" | grep "^OK\|^VIOLATION\|^UNDECIDED\|^FAILED\|^FAILING" | cut -c1-220
  echo "rc($prop)=${PIPESTATUS[0]}"
done
rm -rf $S
TAG=$(python3 -c "import hashlib,sys;print(hashlib.sha1(sys.argv[1].encode()).hexdigest()[:8])" $S)
rm -rf /verif/build/native_$TAG /verif/build/dnative_$TAG /verif/build/kani/$TAG
