#!/bin/bash
# usage: try_seed.sh <patch.diff> <prop> [<prop>...]   -- applies the patch to a scratch copy of /repo and runs the checks against it
set -e
P=$1; shift
S=/tmp/seed_try_repo
rm -rf $S; rsync -a --exclude target --exclude .git /repo/ $S/
(cd $S && patch -p1 -s < $P)
cp -r /verif/evidence /tmp/seed_try_evidence
for prop in "$@"; do
  python3 /verif/vp.py check $prop --repo $S 2>&1 | grep -v "^NOTE" | grep "^OK\|^VIOLATION\|^UNDECIDED\|^FAILED\|^FAILING" | cut -c1-220
  echo "rc($prop)=${PIPESTATUS[0]}"
done
rm -rf /verif/evidence; mv /tmp/seed_try_evidence /verif/evidence
rm -rf $S
