"""Native counterexample search (bounded) that turns a failed Verus obligation into a concrete failing input.
The real source files of /repo are compiled in with #[path]; nothing here is counted as proof."""
import hashlib
import json
import os
import subprocess

VERIF = os.path.dirname(os.path.abspath(__file__))
BUILD = os.path.join(VERIF, "build")

PROGRAMS = {"segments": "segments_search.rs"}


def _build(name, repo):
    src = open(os.path.join(VERIF, "replay", PROGRAMS[name])).read().replace("@REPO@", os.path.abspath(repo))
    tag = hashlib.sha1(os.path.abspath(repo).encode()).hexdigest()[:8]
    d = os.path.join(BUILD, "search")
    os.makedirs(d, exist_ok=True)
    rs = os.path.join(d, "%s_%s.rs" % (name, tag))
    exe = os.path.join(d, "%s_%s" % (name, tag))
    open(rs, "w").write(src)
    # always rebuild: the included /repo source may have changed
    r = subprocess.run(["rustc", "-O", "--edition", "2021", "-A", "warnings", "-o", exe, rs], capture_output=True, text=True)
    if r.returncode:
        raise RuntimeError("rustc failed: " + r.stderr[-600:])
    return exe


def setup():
    for n in PROGRAMS:
        _build(n, "/repo")
    print("search programs built")


KINDS = {"segments": {"Segments::is_complete": "is_complete", "Segments::merge": "merge", "merge": "merge",
                       "Segments::gaps": "gaps", "Segments::end": "end_or_0", "Segments::end_or_0": "end_or_0", "Segments::len": "len"}}


def find(names, repo, violations):
    """one bounded native search per failed function; returns the list of concrete failing inputs found"""
    found = []
    for n in names:
        exe = _build(n, repo)
        kinds = sorted({KINDS[n].get(v["fn"], "") for v in violations})
        for kind in kinds:
            r = subprocess.run([exe, "search"] + ([kind] if kind else []), capture_output=True, text=True, timeout=600)
            line = (r.stdout.strip().splitlines() or [""])[-1]
            if r.returncode == 1 and line.startswith("{"):
                d = json.loads(line)
                d["program"] = n
                d["replay"] = "%s replay '%s' '%s'" % (exe, d.get("ops", ""), d.get("query", ""))
                print("FAILING INPUT (%s, native search on the real source): ops=[%s] %s -> observed %s, expected %s" % (n, d.get("ops"), d.get("query"), d.get("observed"), d.get("expected")))
                found.append(d)
    return found or None


def replay(ds, repo):
    rc = 0
    for d in ds:
        exe = _build(d["program"], repo)
        r = subprocess.run([exe, "replay", d.get("ops", ""), d.get("query", "")], capture_output=True, text=True)
        print(r.stdout.strip())
        rc = rc or (1 if r.returncode == 1 else 0)
    return rc
