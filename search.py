"""Native counterexample search (bounded) that turns a failed Verus obligation into a concrete failing input.
The real source files of /repo are compiled in with #[path]; nothing here is counted as proof."""
import hashlib
import json
import os
import subprocess

VERIF = os.path.dirname(os.path.abspath(__file__))
BUILD = os.path.join(VERIF, "build")

PROGRAMS = {"segments": "segments_search.rs"}


def _build(name, repo):
    src = open(os.path.join(VERIF, "replay", PROGRAMS[name])).read().replace("@REPO@", os.path.abspath(repo))
    tag = hashlib.sha1(os.path.abspath(repo).encode()).hexdigest()[:8]
    d = os.path.join(BUILD, "search")
    os.makedirs(d, exist_ok=True)
    rs = os.path.join(d, "%s_%s.rs" % (name, tag))
    exe = os.path.join(d, "%s_%s" % (name, tag))
    open(rs, "w").write(src)
    # always rebuild: the included /repo source may have changed
    r = subprocess.run(["rustc", "-O", "--edition", "2021", "-A", "warnings", "-o", exe, rs], capture_output=True, text=True)
    if r.returncode:
        raise RuntimeError("rustc failed: " + r.stderr[-600:])
    return exe


def build_native(repo):
    """cargo project with the bounded/native programs that need cfdp-core as a dependency; rebuilt against `repo`"""
    tag = hashlib.sha1(os.path.abspath(repo).encode()).hexdigest()[:8]
    d = os.path.join(BUILD, "native_" + tag)
    src = os.path.join(VERIF, "replay", "core_native")
    os.makedirs(os.path.join(d, "src", "bin"), exist_ok=True)
    open(os.path.join(d, "Cargo.toml"), "w").write(open(os.path.join(src, "Cargo.toml.in")).read().replace("@REPO@", os.path.abspath(repo)))
    os.makedirs(os.path.join(d, ".cargo"), exist_ok=True)
    open(os.path.join(d, ".cargo", "config.toml"), "w").write("[net]\noffline = true\n")
    import shutil
    shutil.copy(os.path.join(repo, "Cargo.lock"), os.path.join(d, "Cargo.lock"))
    for f in os.listdir(os.path.join(src, "src", "bin")):
        shutil.copy(os.path.join(src, "src", "bin", f), os.path.join(d, "src", "bin", f))
    env = dict(os.environ, CARGO_NET_OFFLINE="true", CARGO_TARGET_DIR=os.path.join(BUILD, "native_target"))
    r = subprocess.run(["cargo", "build", "--release", "--offline", "--bins"], cwd=d, capture_output=True, text=True, env=env)
    if r.returncode:
        raise RuntimeError("cargo build of native programs failed: " + r.stderr[-1500:])
    return os.path.join(BUILD, "native_target", "release")


def build_daemon_native(repo):
    """native programs that need cfdp-daemon built with the verification hooks (--cfg cfdp_verif)"""
    tag = hashlib.sha1(os.path.abspath(repo).encode()).hexdigest()[:8]
    d = os.path.join(BUILD, "dnative_" + tag)
    src = os.path.join(VERIF, "replay", "daemon_native")
    os.makedirs(os.path.join(d, "src", "bin"), exist_ok=True)
    open(os.path.join(d, "Cargo.toml"), "w").write(open(os.path.join(src, "Cargo.toml.in")).read().replace("@REPO@", os.path.abspath(repo)))
    os.makedirs(os.path.join(d, ".cargo"), exist_ok=True)
    open(os.path.join(d, ".cargo", "config.toml"), "w").write("[net]\noffline = true\n")
    import shutil
    shutil.copy(os.path.join(repo, "Cargo.lock"), os.path.join(d, "Cargo.lock"))
    for f in os.listdir(os.path.join(src, "src", "bin")):
        shutil.copy(os.path.join(src, "src", "bin", f), os.path.join(d, "src", "bin", f))
    env = dict(os.environ, CARGO_NET_OFFLINE="true", CARGO_TARGET_DIR=os.path.join(BUILD, "dnative_target"), RUSTFLAGS="--cfg cfdp_verif")
    r = subprocess.run(["cargo", "build", "--release", "--offline", "--bins"], cwd=d, capture_output=True, text=True, env=env)
    if r.returncode:
        raise RuntimeError("cargo build of daemon-native programs failed: " + r.stderr[-1500:])
    return os.path.join(BUILD, "dnative_target", "release")


DAEMON_PROGS = {"naksplit_bounded", "transport_bounded", "recvreq_bounded"}


def run_native(prog, args, repo, timeout=900):
    bindir = build_daemon_native(repo) if prog in DAEMON_PROGS else build_native(repo)
    # programs that touch the file system work in a private directory under build/ (created and removed by the program)
    args = [x.replace("@SANDBOX@", os.path.join(BUILD, "sandbox_%s_%d" % (prog, os.getpid()))) for x in args]
    r = subprocess.run([os.path.join(bindir, prog)] + args, capture_output=True, text=True, timeout=timeout)
    line = (r.stdout.strip().splitlines() or [""])[-1]
    try:
        d = json.loads(line)
    except Exception:
        d = {"raw": r.stdout[-500:] + r.stderr[-500:]}
    return r.returncode, d


def setup():
    build_native("/repo")
    build_daemon_native("/repo")
    for n in PROGRAMS:
        _build(n, "/repo")
    print("search programs built")


KINDS = {"segments": {"Segments::is_complete": "is_complete", "Segments::merge": "merge", "merge": "merge",
                       "Segments::gaps": "gaps", "Segments::end": "end_or_0", "Segments::end_or_0": "end_or_0", "Segments::len": "len"}}


def find(names, repo, violations):
    """one bounded native search per failed function; returns the list of concrete failing inputs found"""
    found = []
    for n in names:
        exe = _build(n, repo)
        kinds = sorted({KINDS[n].get(v["fn"], "") for v in violations})
        for kind in kinds:
            r = subprocess.run([exe, "search"] + ([kind] if kind else []), capture_output=True, text=True, timeout=600)
            line = (r.stdout.strip().splitlines() or [""])[-1]
            if r.returncode == 1 and line.startswith("{"):
                d = json.loads(line)
                d["program"] = n
                d["replay"] = "%s replay '%s' '%s'" % (exe, d.get("ops", ""), d.get("query", ""))
                print("FAILING INPUT (%s, native search on the real source): ops=[%s] %s -> observed %s, expected %s" % (n, d.get("ops"), d.get("query"), d.get("observed"), d.get("expected")))
                found.append(d)
    return found or None


def replay(ds, repo):
    rc = 0
    for d in ds:
        if d.get("kani"):
            import kani_run as K
            out = K.replay(d["harness"], d.get("input_hex") or "", repo) if hasattr(K, "replay") else {"note": "kani_run.replay not available", "recorded": d.get("native_replay")}
            print(json.dumps(out)[:2000])
            rc = 1
            continue
        if d.get("native"):
            if d["program"] == "naksplit_bounded":
                nrc, out = run_native(d["program"], ["replay", d.get("naks", "")], repo)
            elif d["program"] == "recvreq_bounded":
                nrc, out = run_native(d["program"], ["replay", d.get("requests", "")], repo)
            elif d["program"] == "transport_bounded":
                nrc, out = run_native(d["program"], ["replay", d.get("first", ""), d.get("second", "")], repo)
            elif d["program"] == "roundtrip_bounded":
                nrc, out = run_native(d["program"], ["replay", str(d.get("case", 0)), d.get("tier", "quick")], repo)
            elif d["program"] == "fsreq_bounded":
                extra = (d.get("setup") or "").split(" ")
                extra = (extra + ["", "", ""])[:3] if d.get("setup") else []
                nrc, out = run_native(d["program"], ["replay", "@SANDBOX@", d.get("action", ""), d.get("first", ""), d.get("second", "")] + extra, repo)
            elif d["program"] == "paths_bounded":
                nrc, out = run_native(d["program"], ["replay", "@SANDBOX@", d.get("op", ""), d.get("name", ""), d.get("name2", "")], repo)
            elif d["program"] == "checksum_bounded":
                nrc, out = run_native(d["program"], ["replay", d.get("content", ""), d.get("reads", "")], repo)
            else:
                nrc, out = run_native(d["program"], ["replay"] + d.get("replay_args", []), repo)
            print(json.dumps(out))
            rc = rc or (1 if nrc == 1 else 0)
            continue
        exe = _build(d["program"], repo)
        r = subprocess.run([exe, "replay", d.get("ops", ""), d.get("query", "")], capture_output=True, text=True)
        print(r.stdout.strip())
        rc = rc or (1 if r.returncode == 1 else 0)
    return rc
